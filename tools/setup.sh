#!/bin/sh
# offline setup: nothing is built ahead of time (every check regenerates kernels from /repo); verify tools + byte-compile
set -e
cd "$(dirname "$0")/.."
for t in clang++-14 g++-12 python3-vt cvc5; do command -v $t >/dev/null || { echo "missing tool $t"; exit 1; }; done
python3-vt -c "import z3; print('z3', z3.get_version_string())"
python3-vt -m compileall -q vlib props tools >/dev/null
echo setup ok
