#!/bin/sh
# usage: tools/thorough_sweep.sh <outdir> <jobs> <ID>...   -- run thorough checks (no evidence written), summary in <outdir>/summary.txt
OUT="$1"; J="$2"; shift 2
mkdir -p "$OUT"
for I in "$@"; do
  L="$OUT/$I.log"; T0=$(date +%s)
  timeout ${THOR_TIMEOUT:-5400} /verif/vcheck $I --tier thorough --jobs $J --no-evidence > "$L" 2>&1
  RC=$?
  echo "$I exit=$RC wall=$(( $(date +%s) - T0 ))s $(grep -c '^VIOLATION' "$L") violations" >> "$OUT/summary.txt"
done
