#!/bin/sh
# usage: tools/confirm_seeded.sh <seeded dir>   -- independent confirmation of a seeded change in a scratch worktree:
#   (1) demo passes on the original tree, (2) patch applies, (3) demo fails with the change,
#   (4) the whole test suite still builds and passes with the change (except the two baseline-failing targets)
set -u
D="$(cd "$1" && pwd)"; N="$(basename "$D")"
WT="/tmp/confirm_$N"
LOG="$D/confirm.log"
: > "$LOG"
git -C /repo worktree add -q --detach "$WT" HEAD || exit 2
trap 'git -C /repo worktree remove --force "$WT" >/dev/null 2>&1' EXIT INT TERM
CXX=g++-12
grep -q "clang++-14" "$D/notes.md" 2>/dev/null && grep -qi "compile with clang" "$D/notes.md" && CXX=clang++-14
$CXX -std=gnu++20 -O2 -w -I"$WT/include" "$D/demo.cpp" -o "$WT/demo_orig" >>"$LOG" 2>&1 && (cd "$WT" && timeout 300 ./demo_orig >/dev/null 2>&1); echo "demo on original tree: exit $?" >> "$LOG"
git -C "$WT" apply "$D/patch.diff" >>"$LOG" 2>&1; echo "patch applies: exit $?" >> "$LOG"
$CXX -std=gnu++20 -O2 -w -I"$WT/include" "$D/demo.cpp" -o "$WT/demo_mut" >>"$LOG" 2>&1 && (cd "$WT" && timeout 300 ./demo_mut >/dev/null 2>&1); echo "demo with the change: exit $?" >> "$LOG"
cmake -G Ninja -S "$WT" -B "$WT/_build" -DCMAKE_BUILD_TYPE=RelWithDebInfo -DCMAKE_CXX_FLAGS=-Wno-error -DCMAKE_PREFIX_PATH=/root/miniconda >/dev/null 2>&1
cmake --build "$WT/_build" -j "${JOBS:-12}" -- -k 0 > "$WT/build.log" 2>&1
grep "^FAILED:" "$WT/build.log" | sed 's/^/build /' >> "$LOG"
ctest --test-dir "$WT/_build" -j8 --timeout 900 > "$WT/ctest.log" 2>&1
grep -E "tests passed|Not Run|Failed|\*\*\*" "$WT/ctest.log" | sed 's/^/ctest /' >> "$LOG"
cat "$LOG"
