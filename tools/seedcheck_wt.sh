#!/bin/sh
# usage: tools/seedcheck_wt.sh <patch.diff> <ID> [<ID> ...]
# like seedcheck.sh, but leaves /repo alone: applies the seeded change in a scratch worktree of /repo's HEAD and points
# the checks at it (VERIF_REPO); the worktree is removed afterwards.  Lets several seeded changes be tried in parallel.
set -u
PATCH="$1"; shift
VD="${VERIF_DIR:-/verif}"
WT="/tmp/seedwt_$$"
git -C /repo worktree add -q --detach "$WT" HEAD || exit 2
trap 'git -C /repo worktree remove --force "$WT" >/dev/null 2>&1' EXIT INT TERM
git -C "$WT" apply "$PATCH" || { echo "patch does not apply"; exit 2; }
for id in "$@"; do
  echo "=== $id with $(basename $(dirname $PATCH))"
  VERIF_REPO="$WT" timeout 3000 "$VD/vcheck" "$id" --tier quick --no-evidence --jobs "${JOBS:-8}" 2>&1 | grep -E "^VIOLATION|^  kernel|^KNOWN|^MACHINERY|^FATAL|quick:" | cut -c1-400 | head -30
done
