#!/usr/bin/env python3
"""regenerates MANIFEST.json from the table below (kept in one place so that it stays valid)"""
import json, os, sys
HERE = os.path.dirname(os.path.dirname(os.path.abspath(__file__)))
sys.path.insert(0, HERE)
CLAIMED = {}
for f in sorted(os.listdir(os.path.join(HERE, "props"))):
    if f.startswith("c") and f[1:3].isdigit() and f.endswith(".py"):
        CLAIMED[f[:3].upper()] = f
NOTES = json.load(open(os.path.join(HERE, "tools", "manifest_notes.json")))
props = [json.loads(l) for l in open(os.path.join(HERE, "properties.jsonl"))]
checks = []
na = []
for p in props:
    pid = p["id"]
    n = NOTES.get(pid, {})
    if pid in CLAIMED and not n.get("not_applicable"):
        checks.append({
            "property_id": pid,
            "quick_cmd": "./vcheck %s --tier quick" % pid,
            "thorough_cmd": "./vcheck %s --tier thorough" % pid,
            "evidence_file": "/verif/evidence/%s.json" % pid,
            "replay_cmd_template": "./vcheck replay {path}",
            "engine": n.get("engine", "irsym"),
            "level_claimed": {"category": "other",
                              "text": n.get("text", "bounded symbolic checking of the compiled real code (LLVM IR -> SMT): every operand value of each instantiation in the listed lattice is covered by solver verdicts; instantiations are enumerated"),
                              "design_ref": "DESIGN.md section 6 (%s)" % pid},
            "level_note": n.get("note", "trusted: clang-14 front end/-O1, UBSan instrumentation completeness, IR parser + symbolic executor (validated per run against the real g++ build on concrete vectors), z3/cvc5; bounds and undecided obligations are listed in the evidence file"),
            "technique": n.get("technique", "path-wise symbolic execution of clang LLVM IR of the real templates + SMT (z3, cvc5)"),
        })
    else:
        na.append({"property_id": pid, "reason": n.get("not_applicable", "check not built yet in this session (planned, see DESIGN.md section 6)")})
m = {
    "version": 1,
    "setup_cmd": "sh tools/setup.sh",
    "hooks": {"guard": "JOHNMCFARLANE_CNL_VERIF", "enable": "none needed: kernels include /repo/include headers directly; the GCC-only code paths are selected by '#undef __clang__' after pre-including the standard headers (DESIGN.md 2.4)",
              "baseline_off_cmd": "cmake --build /repo/_build && ctest --test-dir /repo/_build -j8 --timeout 900",
              "source_commits": [], "add_only": True},
    "engines": [{"name": "irsym", "path": "vlib/", "serves_properties": [c["property_id"] for c in checks],
                 "kind_free_text": "clang-14 LLVM IR of generated extern-C kernels over the real CNL templates -> own path-wise symbolic executor -> SMT-LIB obligations (QF_BV / FP / NIA) -> z3 + cvc5; counterexamples replayed on a g++/clang build of the same kernels"}],
    "checks": checks,
    "not_applicable": na,
    "notes": "All checks rebuild their kernels from /repo's working tree on every run; nothing derived from /repo is cached. Exit 0 = nothing refuted (KNOWN-FINDING lines possible), 1 = VIOLATION, 2 = machinery failure.",
}
json.dump(m, open(os.path.join(HERE, "MANIFEST.json"), "w"), indent=1)
print("claimed:", [c["property_id"] for c in checks], "n/a:", [x["property_id"] for x in na])
