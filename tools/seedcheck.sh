#!/bin/sh
# usage: tools/seedcheck.sh <patch.diff> <ID> [<ID> ...]
# applies a seeded change to /repo, runs the quick checks, and ALWAYS restores /repo afterwards
set -u
PATCH="$1"; shift
cd /verif || exit 2
git -C /repo diff --quiet || { echo "/repo has local modifications; refusing"; exit 2; }
git -C /repo apply "$PATCH" || { echo "patch does not apply"; exit 2; }
trap 'git -C /repo checkout -- . ' EXIT INT TERM
rc=0
for id in "$@"; do
  echo "=== $id with $(basename $(dirname $PATCH))"
  timeout 3000 ./vcheck "$id" --tier quick --no-evidence 2>&1 | grep -E "^VIOLATION|^  kernel|^KNOWN|^MACHINERY|^FATAL|quick:" | cut -c1-400 | head -30
done
git -C /repo checkout -- .
trap - EXIT INT TERM
git -C /repo status --short | grep -v "_build" | head
