#!/bin/sh
# usage: tools/sweep.sh <outdir> <jobs> <seed>...   -- run every quick check under each seed (no evidence written); summary in <outdir>/summary.txt
OUT="$1"; J="$2"; shift 2
mkdir -p "$OUT"
for S in "$@"; do
  for I in 01 02 03 04 05 06 07 08 09 10 11 12 13 14 15 16 17 18 19 20; do
    L="$OUT/s${S}_C$I.log"
    T0=$(date +%s)
    VERIF_SEED=$S timeout 2400 /verif/vcheck C$I --tier quick --jobs $J --no-evidence > "$L" 2>&1
    RC=$?
    echo "seed=$S C$I exit=$RC wall=$(( $(date +%s) - T0 ))s $(grep -c '^VIOLATION' "$L") violations" >> "$OUT/summary.txt"
  done
done
