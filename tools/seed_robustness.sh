#!/bin/sh
# usage: tools/seed_robustness.sh <seed> <outfile> <seeded dir>...
# re-runs the quick check of each seeded change's property under another VERIF_SEED (scratch worktree, /repo untouched)
SEED="$1"; OUT="$2"; shift 2
for D in "$@"; do
  P=$(python3 -c "import json,sys; print(json.load(open('$D/meta.json'))['property'])")
  N=$(VERIF_SEED=$SEED JOBS=${JOBS:-3} /verif/tools/seedcheck_wt.sh "$D/patch.diff" "$P" 2>&1 | grep -c "^VIOLATION")
  echo "$(basename $D) $P seed=$SEED violations=$N" >> "$OUT"
done
