"""C12 - native-tag wrappers are transparent (bounded translation validation CNL expression vs built-in expression)."""
from .common import *

EXPLANATION = ("C12: each kernel pair (CNL wrapper expression, hand-written built-in expression) is compiled in the same "
               "TU and proved to have identical outcomes (value, or the same undefined behaviour) for every operand "
               "bit pattern; emitted is_same constants check the promoted result representation.")
BOUNDS = {"quick": "wrappers {scaled<R,power<0>>, overflow<R,native>, rounding<R,native>, 3 nestings} x ops {+,-,*,/,%,&,|,^,<<,>>,6 comparisons,unary -,+,~,op=,++,--} x R in {i8,u8,i16,u16,i32,u32,i64,u64} (full product) + documentation kernels; gcc view",
          "thorough": "full product incl. i128/u128 for non-multiplicative operators"}

WRAPPERS = {
    "scaled0": "cnl::scaled_integer<%s, cnl::power<0>>",
    "ovfnat": "cnl::overflow_integer<%s, cnl::native_overflow_tag>",
    "rndnat": "cnl::rounding_integer<%s, cnl::native_rounding_tag>",
    "sc_ovf": "cnl::scaled_integer<cnl::overflow_integer<%s, cnl::native_overflow_tag>, cnl::power<0>>",
    "sc_rnd": "cnl::scaled_integer<cnl::rounding_integer<%s, cnl::native_rounding_tag>, cnl::power<0>>",
    "rnd_ovf": "cnl::rounding_integer<cnl::overflow_integer<%s, cnl::native_overflow_tag>, cnl::native_rounding_tag>",
    "sc_rnd_ovf": "cnl::scaled_integer<cnl::rounding_integer<cnl::overflow_integer<%s, cnl::native_overflow_tag>, cnl::native_rounding_tag>, cnl::power<0>>",
}
BINOPS = {"add": "+", "sub": "-", "mul": "*", "div": "/", "rem": "%", "and": "&", "or": "|", "xor": "^"}
CMPOPS = {"eq": "==", "ne": "!=", "lt": "<", "le": "<=", "gt": ">", "ge": ">="}
SHIFTS = {"shl": "<<", "shr": ">>"}
UNOPS = {"neg": "-", "pos": "+", "not": "~"}


def mode_for(op, R):
    if op in ("mul", "div", "rem") and bits(R) >= 32:
        return "bv"  # identical structure on both sides: trivial for the solver even in BV
    return "bv"


def kernels(opts):
    ks = []
    tier = opts["tier"]
    reps = I8 if tier == "quick" else I128
    n = 0
    for wn, wt in WRAPPERS.items():
        for R in reps:
            T = wt % cpp(R)
            P = promote(R)
            base_decl = "using {n}_T = %s;\nusing {n}_R = %s;\n" % (T, cpp(R))

            def add(name, args, ret, body, ref, consts=None, desc="", **kw):
                nonlocal n
                kn = "K%d_%s" % (len(ks), name)
                ks.append(Kernel(kn, args, ret, body.replace("{n}", kn), ref_body=ref.replace("{n}", kn),
                                 decls=base_decl.replace("{n}", kn), consts={k: v.replace("{n}", kn) for k, v in (consts or {}).items()},
                                 desc=desc, tags={"wrapper": wn, "rep": R}, claims=consts_claims(consts), **kw))

            for on, o in BINOPS.items():
                add("%s_%s_%s" % (wn, on, R), [("a", R), ("b", R)], P,
                    "    auto r = cnl::wrap<{n}_T>(a) %s cnl::wrap<{n}_T>(b);\n    return static_cast<%s>(cnl::unwrap(r));" % (o, cpp(P)),
                    "    return static_cast<%s>(a %s b);" % (cpp(P), o),
                    {"same": "std::is_same_v<decltype(cnl::unwrap(std::declval<{n}_T>() %s std::declval<{n}_T>())), decltype(std::declval<{n}_R>() %s std::declval<{n}_R>())>" % (o, o)},
                    desc="%s<%s> %s" % (wn, R, o))
            for on, o in CMPOPS.items():
                add("%s_%s_%s" % (wn, on, R), [("a", R), ("b", R)], "bool",
                    "    return cnl::wrap<{n}_T>(a) %s cnl::wrap<{n}_T>(b);" % o,
                    "    return a %s b;" % o, desc="%s<%s> %s" % (wn, R, o))
            for on, o in SHIFTS.items():
                add("%s_%s_%s" % (wn, on, R), [("a", R), ("b", "i32")], P,
                    "    auto r = cnl::wrap<{n}_T>(a) %s b;\n    return static_cast<%s>(cnl::unwrap(r));" % (o, cpp(P)),
                    "    return static_cast<%s>(a %s b);" % (cpp(P), o),
                    {"same": "std::is_same_v<decltype(cnl::unwrap(std::declval<{n}_T>() %s 1)), decltype(std::declval<{n}_R>() %s 1)>" % (o, o)},
                    desc="%s<%s> %s int" % (wn, R, o))
            for on, o in UNOPS.items():
                add("%s_%s_%s" % (wn, on, R), [("a", R)], P,
                    "    auto r = %scnl::wrap<{n}_T>(a);\n    return static_cast<%s>(cnl::unwrap(r));" % (o, cpp(P)),
                    "    return static_cast<%s>(%sa);" % (cpp(P), o),
                    {"same": "std::is_same_v<decltype(cnl::unwrap(%sstd::declval<{n}_T>())), decltype(%sstd::declval<{n}_R>())>" % (o, o)},
                    desc="%s<%s> unary %s" % (wn, R, o))
            # compound assignment  a op= b  ==  a = T(a op b)
            for on, o in BINOPS.items():
                add("%s_c%s_%s" % (wn, on, R), [("a", R), ("b", R)], R,
                    "    auto x = cnl::wrap<{n}_T>(a);\n    x %s= cnl::wrap<{n}_T>(b);\n    return cnl::unwrap(x);" % o,
                    "    auto x = a;\n    x = static_cast<%s>(x %s b);\n    return x;" % (cpp(R), o),
                    desc="%s<%s> %s=" % (wn, R, o))
            # compound shifts  a <<= n, a >>= n  ==  a = T(a << n)
            for on, o in SHIFTS.items():
                add("%s_c%s_%s" % (wn, on, R), [("a", R), ("b", "i32")], R,
                    "    auto x = cnl::wrap<{n}_T>(a);\n    x %s= b;\n    return cnl::unwrap(x);" % o,
                    "    auto x = a;\n    x = static_cast<%s>(x %s b);\n    return x;" % (cpp(R), o),
                    desc="%s<%s> %s= int" % (wn, R, o))
            # ++ / --
            for on, o, bo in () if wn in ("rndnat", "rnd_ovf") else (("preinc", "++x", "+"), ("predec", "--x", "-"), ("postinc", "x++", "+"), ("postdec", "x--", "-")):
                add("%s_%s_%s" % (wn, on, R), [("a", R)], R,
                    "    auto x = cnl::wrap<{n}_T>(a);\n    %s;\n    return cnl::unwrap(x);" % o,
                    "    auto x = a;\n    x = static_cast<%s>(x %s 1);\n    return x;" % (cpp(R), bo),
                    desc="%s<%s> %s" % (wn, R, on))
    ks += doc_kernels()
    if tier == "quick":
        keep = seeded_subset(range(len(ks)), 1.0, opts["seed"], "c12")
        keep = set(keep)
        ks = [k for i, k in enumerate(ks) if i in keep or k.tags.get("doc")]
    return ks


def consts_claims(consts):
    if not consts:
        return None

    def claims(env, path):
        if path is not None:
            return []
        return [("result-rep-same", env.c["same"] == 1)] if "same" in env.c else []
    return claims


def doc_kernels():
    """the fixed-point kernels used in the documentation / zero-cost tests, integer in - integer out"""
    ks = []

    def add(name, args, ret, body, ref, desc):
        ks.append(Kernel("D_" + name, args, ret, body, ref_body=ref, desc=desc, tags={"doc": True}))
    # multiply-widen: scaled_integer<int16,-8> * scaled_integer<int16,-8> -> int32 rep at -16
    add("mulwiden16", [("a", "i16"), ("b", "i16")], "i32",
        "    using F = cnl::scaled_integer<std::int16_t, cnl::power<-8>>;\n"
        "    auto r = cnl::_impl::from_rep<F>(a) * cnl::_impl::from_rep<F>(b);\n"
        "    static_assert(std::is_same_v<decltype(r), cnl::scaled_integer<int, cnl::power<-16>>>);\n"
        "    return cnl::_impl::to_rep(r);",
        "    return static_cast<int>(a) * static_cast<int>(b);", "s16:-8 * s16:-8 == int multiply at -16")
    add("mixadd", [("a", "i32"), ("b", "i32")], "i32",
        "    using F1 = cnl::scaled_integer<std::int32_t, cnl::power<-4>>;\n"
        "    using F2 = cnl::scaled_integer<std::int32_t, cnl::power<-9>>;\n"
        "    auto r = cnl::_impl::from_rep<F1>(a) + cnl::_impl::from_rep<F2>(b);\n"
        "    static_assert(std::is_same_v<decltype(r), cnl::scaled_integer<int, cnl::power<-9>>>);\n"
        "    return cnl::_impl::to_rep(r);",
        "    return (a * 32) + b;", "s32:-4 + s32:-9 == (a<<5)+b")
    add("mixsub", [("a", "i16"), ("b", "u8")], "i32",
        "    using F1 = cnl::scaled_integer<std::int16_t, cnl::power<-2>>;\n"
        "    using F2 = cnl::scaled_integer<std::uint8_t, cnl::power<-7>>;\n"
        "    auto r = cnl::_impl::from_rep<F1>(a) - cnl::_impl::from_rep<F2>(b);\n"
        "    return cnl::_impl::to_rep(r);",
        "    return (static_cast<int>(a) * 32) - static_cast<int>(b);", "s16:-2 - u8:-7 == (a<<5)-b")
    # average (test/unit/zero_cost_average.cpp)
    add("average_scaled", [("a", "i32"), ("b", "i32")], "i64",
        "    using F = cnl::scaled_integer<std::int32_t, cnl::power<-16>>;\n"
        "    using W = cnl::scaled_integer<std::int64_t, cnl::power<-16>>;\n"
        "    auto sum = W{cnl::_impl::from_rep<F>(a)} + cnl::_impl::from_rep<F>(b);\n"
        "    auto avg = sum >> cnl::constant<1>{};\n"
        "    static_assert(cnl::_impl::tag_of_t<decltype(avg)>::exponent == -17);\n"
        "    return cnl::_impl::to_rep(avg);",
        "    return std::int64_t{a} + b;", "average_scaled_integer: W{f1}+f2 then >>1_c == int64 sum at exponent -17")
    add("average_elastic", [("a", "i32"), ("b", "i32")], "i64",
        "    using F = cnl::elastic_scaled_integer<31, cnl::power<-16>>;\n"
        "    auto sum = cnl::wrap<F>(a) + cnl::wrap<F>(b);\n"
        "    auto avg = sum >> cnl::constant<1>{};\n"
        "    return static_cast<std::int64_t>(cnl::unwrap(avg));",
        "    return std::int64_t{a} + b;", "average_elastic: elastic sum then >>1_c == int64 sum")
    add("square_scaled", [("a", "i32")], "i64",
        "    using F = cnl::scaled_integer<std::int32_t, cnl::power<-16>>;\n"
        "    using W = cnl::scaled_integer<std::int64_t, cnl::power<-16>>;\n"
        "    auto fixed = cnl::_impl::from_rep<F>(a);\n"
        "    auto prod = W{fixed} * fixed;\n"
        "    static_assert(cnl::_impl::tag_of_t<decltype(prod)>::exponent == -32);\n"
        "    return cnl::_impl::to_rep(prod);",
        "    return std::int64_t{a} * a;", "square_scaled_integer: W{f}*f == (int64)a*a at exponent -32")
    add("square_elastic", [("a", "i16")], "i32",
        "    using F = cnl::elastic_scaled_integer<15, cnl::power<-16>>;\n"
        "    auto fixed = cnl::wrap<F>(static_cast<int>(a));\n"
        "    auto prod = fixed * fixed;\n"
        "    return static_cast<std::int32_t>(cnl::unwrap(prod));",
        "    return static_cast<std::int32_t>(a) * static_cast<std::int32_t>(a);", "square_elastic: 15-digit elastic squared == int product")
    add("shift_scale", [("a", "i32")], "i32",
        "    using F1 = cnl::scaled_integer<std::int32_t, cnl::power<-12>>;\n"
        "    using F2 = cnl::scaled_integer<std::int32_t, cnl::power<-4>>;\n"
        "    return cnl::_impl::to_rep(static_cast<F2>(cnl::_impl::from_rep<F1>(a)));",
        "    return a / 256;", "conversion s32:-12 -> s32:-4 == a/256 (truncation toward zero)")
    return ks
