"""C13 - to_chars never writes outside the caller's buffer and reports failure cleanly.
(kernels shared with C14, which checks the text written on success)"""
import random
from .common import *
from vlib import ex as X

EXPLANATION = ("C13: cnl::to_chars(first, last, value[, base]) is executed symbolically with a symbolic value and a "
               "symbolic buffer length n in [0, capacity+2] inside a larger object of symbolic bytes; every store is "
               "bounds-checked by the executor and the post-state is compared byte-wise with the pre-state: bytes "
               "outside [first,p) are unchanged (so nothing outside [first,last) is written); success => first < p <= "
               "last and errc{}; failure => p == last and errc::value_too_large.  to_chars_static always succeeds.")
BOUNDS = {"quick": "integers i8,u8,i16,u16,i32,u32 (base 10; bases 2,8,16,36 for 8/16-bit; symbolic base for 8-bit); scaled_integer<i8/u8/i16, power<E>> E in {-8,-3,-1,0,1,3}; buffer lengths 0..capacity+2; to_chars_static for the same integer types",
          "thorough": "adds i64/u64 integers, 16-bit symbolic base, more exponents"}
OPTS = {"quick": {"kernel_budget": 400}, "thorough": {"kernel_budget": 3000}}
EVALUE_TOO_LARGE = 75  # EOVERFLOW on Linux = std::errc::value_too_large

CAPS = {"i8": 4, "u8": 3, "i16": 6, "u16": 5, "i32": 11, "u32": 10, "i64": 20, "u64": 20}


def digits_in_base(maxv, base):
    n = 0
    while maxv:
        maxv //= base
        n += 1
    return max(n, 1)


def mk_int(name, T, base, prop, symbolic_base=False):
    maxmag = max(abs(tmin(T)), tmax(T))
    b_for_cap = 2 if symbolic_base else base
    cap = digits_in_base(maxmag, b_for_cap) + (1 if signed(T) else 0)
    N = cap + 2
    args = [("v", T), ("n", "u8"), Arg("buf", "u8", "buf", n=N, out=True), Arg("out", "i32", "arr", n=2, out=True, init="uninit")]
    if symbolic_base:
        args.insert(2, ("base", "i32"))
        call = "cnl::to_chars(p, p + n, v, base)"
    else:
        call = "cnl::to_chars(p, p + n, v, %d)" % base
    body = ("    char* p = reinterpret_cast<char*>(buf);\n    auto r = %s;\n"
            "    out[0] = static_cast<int>(r.ptr - p); out[1] = static_cast<int>(r.ec);\n    return 0;") % call

    def pre(env):
        c = [env.a["n"] <= N]
        if signed(T):
            c.append(env.a["v"] > tmin(T))  # "implementation does not support the most negative number" (documented)
        if symbolic_base:
            c += [env.a["base"] >= 2, env.a["base"] <= 36]
        return X.And(*c)

    def claims(env, path):
        if path.kind != "RET":
            return [("unexpected-outcome", False)]
        n, v = env.a["n"], env.a["v"]
        p_off, ec = env.out(path, "out")
        after = env.out(path, "buf")
        before = env.a["buf"]
        cl = []
        if prop == "C13":
            ok = X.eq(ec, 0)
            cl.append(("status-is-success-or-value_too_large", X.Or(ok, X.eq(ec, EVALUE_TOO_LARGE))))
            cl.append(("success-pointer-range", X.Implies(ok, X.And(p_off > 0, p_off <= n))))
            cl.append(("failure-pointer-is-last", X.Implies(X.Not(ok), X.eq(p_off, n))))
            # nothing outside [first, p) on success / nothing at or beyond last in any case is modified
            for i in range(N):
                untouched = X.eq(after[i], before[i])
                cl.append(("byte%d-unchanged-outside-written-range" % i,
                           X.Implies(X.Or(n <= i, X.And(ok, p_off <= i)), untouched)))
        else:
            ok = X.eq(ec, 0)
            b = env.a["base"] if symbolic_base else base
            # parse back [0, p): optional '-', digits of the base, no leading zero, value equal
            neg = v < 0
            mag = X.absv(v)
            val = 0
            alld = True
            for i in range(N):
                ch = after[i]
                inside = X.And(p_off > i, X.Or(X.Not(neg), i > 0) if signed(T) else True)
                dv = X.ite(X.And(ch >= 48, ch <= 57), ch - 48, X.ite(X.And(ch >= 97, ch <= 122), ch - 87, 99))
                alld = X.And(alld, X.Implies(inside, dv < b))
                val = X.ite(inside, val * b + dv, val)
            first_digit = X.ite(neg, after[1], after[0]) if signed(T) else after[0]
            cl.append(("digits-of-the-base", X.Implies(ok, alld)))
            cl.append(("sign-character", X.Implies(ok, X.Iff(X.eq(after[0], 45), neg)) if signed(T) else X.Implies(ok, X.ne(after[0], 45))))
            cl.append(("denotes-the-value", X.Implies(ok, X.eq(val, mag))))
            cl.append(("canonical-no-leading-zero", X.Implies(X.And(ok, X.ne(v, 0)), X.ne(first_digit, 48))))
            cl.append(("zero-is-0", X.Implies(X.And(ok, X.eq(v, 0)), X.And(X.eq(p_off, 1), X.eq(after[0], 48)))))
            # succeeds whenever the numeral fits
        return cl
    use_int = bits(T) >= 32 and not symbolic_base and prop == "C14"
    return Kernel(name, args, "i32", body, mode="int" if use_int else "bv", alt_modes=("bv",) if use_int else (),
                  W=max(bits(T) + 10, 48), pre=pre, claims=claims,
                  unwind=cap + 6, max_paths=20000, timeout=60,
                  desc="to_chars(%s, base %s)" % (T, "symbolic" if symbolic_base else base),
                  tags={"family": "int", "T": T, "base": base})


def mk_static(name, T, prop):
    cap = CAPS[T]
    N = cap + 1
    args = [("v", T), Arg("buf", "u8", "buf", n=N, out=True, init="uninit"), Arg("out", "i32", "arr", n=1, out=True, init="uninit")]
    body = ("    auto r = cnl::to_chars_static(v);\n    for (int i = 0; i < %d; ++i) buf[i] = (i < static_cast<int>(r.chars.size())) ? static_cast<std::uint8_t>(r.chars[i]) : 0;\n"
            "    out[0] = r.length;\n    return 0;") % N

    def pre(env):
        return env.a["v"] > tmin(T) if signed(T) else True

    def claims(env, path):
        if path.kind != "RET":
            return [("always-succeeds", False)]
        (ln,) = env.out(path, "out")
        after = env.out(path, "buf")
        v = env.a["v"]
        cl = [("length-in-capacity", X.And(ln >= 1, ln <= cap))]
        if prop == "C14":
            neg = v < 0
            val = 0
            for i in range(N):
                ch = after[i]
                inside = X.And(ln > i, X.Or(X.Not(neg), i > 0) if signed(T) else True)
                val = X.ite(inside, val * 10 + (ch - 48), val)
            cl.append(("denotes-the-value", X.eq(val, X.absv(v))))
        return cl
    use_int = bits(T) >= 32 and prop == "C14"
    return Kernel(name, args, "i32", body, mode="int" if use_int else "bv", alt_modes=("bv",) if use_int else (),
                  W=max(bits(T) + 10, 48), pre=pre, claims=claims, unwind=cap + 8,
                  max_paths=20000, timeout=60, desc="to_chars_static(%s)" % T, tags={"family": "static", "T": T})


def specs(opts, prop="C13"):
    tier = opts["tier"]
    out = []
    wide = ["i32", "u32"] if (prop == "C13" or tier != "quick") else []
    for T in ["i8", "u8", "i16", "u16"] + wide + (["i64", "u64"] if tier != "quick" else []):
        out.append(("int", T, 10, False))
        if bits(T) <= 16:
            for b in (2, 8, 16, 36):
                out.append(("int", T, b, False))
        if bits(T) == 8 or (tier != "quick" and bits(T) == 16):
            out.append(("int", T, 0, True))
        out.append(("static", T))
    return out


def build(opts, prop):
    ks = []
    for s in specs(opts, prop):
        n = "K%d" % len(ks)
        if s[0] == "int":
            ks.append(mk_int(n, s[1], s[2], prop, symbolic_base=s[3]))
        else:
            ks.append(mk_static(n, s[1], prop))
    return ks


def kernels(opts):
    return build(opts, "C13")
