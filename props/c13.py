"""C13 - to_chars never writes outside the caller's buffer and reports failure cleanly.
(kernels shared with C14, which checks the text written on success)"""
import random
from .common import *
from vlib import ex as X

EXPLANATION = ("C13: cnl::to_chars(first, last, value[, base]) is executed symbolically with a symbolic value and a "
               "symbolic buffer length n in [0, capacity+2] inside a larger object of symbolic bytes; every store is "
               "bounds-checked by the executor and the post-state is compared byte-wise with the pre-state: bytes "
               "outside [first,p) are unchanged (so nothing outside [first,last) is written); success => first < p <= "
               "last and errc{}; failure => p == last and errc::value_too_large.  to_chars_static always succeeds.")
BOUNDS = {"quick": "integers i8,u8,i16,u16,i32,u32 (base 10; bases 2,8,16,36 for 8/16-bit; symbolic base for 8-bit); scaled_integer<i8/u8, power<E>> E in {-3,0,1}; buffer lengths 0..capacity+2; to_chars_static for the same integer types; unit kernel to_chars_positive: digit strings of length 1..6, decimal exponent in [-99,99], buffer length 0..12 (covers the layout stage for every binary exponent); descale<int16_t,10> termination for (i8,2^12), (u8,2^9), (i8,2^-12), unwinding bound |E|+|E|/3+40",
          "thorough": "adds i64/u64 integers, 16-bit symbolic base, scaled exponents -8..8 and 16-bit reps; to_chars_positive with digit strings up to 19 and buffers up to 26; descale<int16_t/int32_t> for exponents up to +-16/+-24.  Outside: descale<int64_t> termination at |E| >= 53 (solver does not finish), to_string/operator<< (heap, iostream)"}
OPTS = {"quick": {"kernel_budget": 400}, "thorough": {"kernel_budget": 900}}
EVALUE_TOO_LARGE = 75  # EOVERFLOW on Linux = std::errc::value_too_large

CAPS = {"i8": 4, "u8": 3, "i16": 6, "u16": 5, "i32": 11, "u32": 10, "i64": 20, "u64": 20}


def digits_in_base(maxv, base):
    n = 0
    while maxv:
        maxv //= base
        n += 1
    return max(n, 1)


def mk_int(name, T, base, prop, symbolic_base=False):
    maxmag = max(abs(tmin(T)), tmax(T))
    b_for_cap = 2 if symbolic_base else base
    cap = digits_in_base(maxmag, b_for_cap) + (1 if signed(T) else 0)
    N = cap + 2
    args = [("v", T), ("n", "u8"), Arg("buf", "u8", "buf", n=N, out=True), Arg("out", "i32", "arr", n=2, out=True, init="uninit")]
    if symbolic_base:
        args.insert(2, ("base", "i32"))
        call = "cnl::to_chars(p, p + n, v, base)"
    else:
        call = "cnl::to_chars(p, p + n, v, %d)" % base
    body = ("    char* p = reinterpret_cast<char*>(buf);\n    auto r = %s;\n"
            "    out[0] = static_cast<int>(r.ptr - p); out[1] = static_cast<int>(r.ec);\n    return 0;") % call

    def pre(env):
        c = [env.a["n"] <= N]
        if signed(T):
            c.append(env.a["v"] > tmin(T))  # "implementation does not support the most negative number" (documented)
        if symbolic_base:
            c += [env.a["base"] >= 2, env.a["base"] <= 36]
        return X.And(*c)

    def claims(env, path):
        if path.kind != "RET":
            return [("unexpected-outcome", False)]
        n, v = env.a["n"], env.a["v"]
        p_off, ec = env.out(path, "out")
        after = env.out(path, "buf")
        before = env.a["buf"]
        cl = []
        if prop == "C13":
            ok = X.eq(ec, 0)
            cl.append(("status-is-success-or-value_too_large", X.Or(ok, X.eq(ec, EVALUE_TOO_LARGE))))
            cl.append(("success-pointer-range", X.Implies(ok, X.And(p_off > 0, p_off <= n))))
            cl.append(("failure-pointer-is-last", X.Implies(X.Not(ok), X.eq(p_off, n))))
            # nothing outside [first, p) on success / nothing at or beyond last in any case is modified
            for i in range(N):
                untouched = X.eq(after[i], before[i])
                cl.append(("byte%d-unchanged-outside-written-range" % i,
                           X.Implies(X.Or(n <= i, X.And(ok, p_off <= i)), untouched)))
        else:
            ok = X.eq(ec, 0)
            b = env.a["base"] if symbolic_base else base
            # parse back [0, p): optional '-', digits of the base, no leading zero, value equal
            neg = v < 0
            mag = X.absv(v)
            val = 0
            alld = True
            for i in range(N):
                ch = after[i]
                inside = X.And(p_off > i, X.Or(X.Not(neg), i > 0) if signed(T) else True)
                dv = X.ite(X.And(ch >= 48, ch <= 57), ch - 48, X.ite(X.And(ch >= 97, ch <= 122), ch - 87, 99))
                alld = X.And(alld, X.Implies(inside, dv < b))
                val = X.ite(inside, val * b + dv, val)
            first_digit = X.ite(neg, after[1], after[0]) if signed(T) else after[0]
            cl.append(("digits-of-the-base", X.Implies(ok, alld)))
            cl.append(("sign-character", X.Implies(ok, X.Iff(X.eq(after[0], 45), neg)) if signed(T) else X.Implies(ok, X.ne(after[0], 45))))
            cl.append(("denotes-the-value", X.Implies(ok, X.eq(val, mag))))
            cl.append(("canonical-no-leading-zero", X.Implies(X.And(ok, X.ne(v, 0)), X.ne(first_digit, 48))))
            cl.append(("zero-is-0", X.Implies(X.And(ok, X.eq(v, 0)), X.And(X.eq(p_off, 1), X.eq(after[0], 48)))))
            # succeeds whenever the numeral fits
        return cl
    use_int = bits(T) >= 32 and not symbolic_base and prop == "C14"
    return Kernel(name, args, "i32", body, mode="int" if use_int else "bv", alt_modes=("bv",) if use_int else (),
                  W=max(bits(T) + 10, 48), pre=pre, claims=claims,
                  unwind=cap + 6, max_paths=20000, timeout=60,
                  desc="to_chars(%s, base %s)" % (T, "symbolic" if symbolic_base else base),
                  tags={"family": "int", "T": T, "base": base})


def mk_static(name, T, prop):
    cap = CAPS[T]
    N = cap + 1
    args = [("v", T), Arg("buf", "u8", "buf", n=N, out=True, init="uninit"), Arg("out", "i32", "arr", n=1, out=True, init="uninit")]
    body = ("    auto r = cnl::to_chars_static(v);\n    for (int i = 0; i < %d; ++i) buf[i] = (i < static_cast<int>(r.chars.size())) ? static_cast<std::uint8_t>(r.chars[i]) : 0;\n"
            "    out[0] = r.length;\n    return 0;") % N

    def pre(env):
        return env.a["v"] > tmin(T) if signed(T) else True

    def claims(env, path):
        if path.kind != "RET":
            return [("always-succeeds", False)]
        (ln,) = env.out(path, "out")
        after = env.out(path, "buf")
        v = env.a["v"]
        cl = [("length-in-capacity", X.And(ln >= 1, ln <= cap))]
        if prop == "C14":
            neg = v < 0
            val = 0
            for i in range(N):
                ch = after[i]
                inside = X.And(ln > i, X.Or(X.Not(neg), i > 0) if signed(T) else True)
                val = X.ite(inside, val * 10 + (ch - 48), val)
            cl.append(("denotes-the-value", X.eq(val, X.absv(v))))
        return cl
    use_int = bits(T) >= 32 and prop == "C14"
    return Kernel(name, args, "i32", body, mode="int" if use_int else "bv", alt_modes=("bv",) if use_int else (),
                  W=max(bits(T) + 10, 48), pre=pre, claims=claims, unwind=cap + 8,
                  max_paths=20000, timeout=60, desc="to_chars_static(%s)" % T, tags={"family": "static", "T": T})


def specs(opts, prop="C13"):
    tier = opts["tier"]
    out = []
    wide = ["i32", "u32"] if (prop == "C13" or tier != "quick") else []
    for T in ["i8", "u8", "i16", "u16"] + wide + (["i64", "u64"] if tier != "quick" else []):
        out.append(("int", T, 10, False))
        if bits(T) <= 16:
            for b in (2, 8, 16, 36):
                out.append(("int", T, b, False))
        if bits(T) == 8 or (tier != "quick" and bits(T) == 16):
            out.append(("int", T, 0, True))
        out.append(("static", T))
    if tier == "quick":
        sc = [("i8", -3), ("u8", 1), ("i8", 0)] if prop == "C13" else [("i8", -3), ("u8", 1)]
    else:
        sc = [(T, E) for T in ("i8", "u8") for E in (-8, -3, -1, 0, 1, 3, 8)] + [("i16", -4), ("u16", -8), ("i16", 3)]
    for (T, E) in sc:
        out.append(("scaled", T, E))
    if prop == "C14":
        # 64-bit reps in 256-value slices: unsigned values with the top bit set, the largest values
        if tier == "quick":
            # (the magnitude claims on 19-digit numerals cost ~50 s per obligation: thorough tier only)
            out.append(("scaled", "u64", 0, 22, (1 << 63, (1 << 63) + 255), ("well-formed-decimal", "sign-of-the-value")))
        else:
            out += [("scaled", "u64", 0, 22, (1 << 63, (1 << 63) + 255)),
                    ("scaled", "u64", 0, 22, ((1 << 64) - 256, (1 << 64) - 1)), ("scaled", "u64", -1, 23, ((1 << 63) + 256, (1 << 63) + 511)),
                    ("scaled", "i64", 0, 22, ((1 << 63) - 256, (1 << 63) - 1)), ("scaled", "i64", -2, 24, (-(1 << 63) + 1, -(1 << 63) + 256))]
    out.append(("positive", 6, 12, -99, 99) if tier == "quick" else ("positive", 19, 26, -99, 99))
    for (T, E, SG) in ([("i8", 12, "i16"), ("u8", 9, "i16"), ("i8", -12, "i16")] if tier == "quick" else
                       [(T, E, "i16") for T in ("i8", "u8") for E in (-16, -12, -5, 1, 5, 9, 12, 16)] + [("i8", 24, "i32"), ("u8", -24, "i32")]):
        out.append(("descale", T, E, SG))
    return out


def build(opts, prop):
    ks = []
    for s in specs(opts, prop):
        n = "K%d" % len(ks)
        if s[0] == "int":
            ks.append(mk_int(n, s[1], s[2], prop, symbolic_base=s[3]))
        elif s[0] == "scaled":
            ks.append(mk_scaled(n, s[1], s[2], prop, *s[3:]))
        elif s[0] == "descale":
            ks.append(mk_descale(n, prop, *s[1:]))
        elif s[0] == "positive":
            ks.append(mk_positive(n, prop, *s[1:]))
        else:
            ks.append(mk_static(n, s[1], prop))
    return ks


def kernels(opts):
    return build(opts, "C13")


def mk_descale(name, prop, T, E, SG="i64"):
    """first stage of every scaled_integer to_chars call: cnl::_impl::descale<int64, 10>(rep, power<E>) rewrites
    rep * 2^E as significand * 10^exponent.  C13 needs it to terminate for every rep and every E in [-70,70] (the loop
    runs at most |E| halving/doubling steps plus at most ~|E|/3 + 20 rescaling steps); C14 needs the rewritten value to
    be the same number (or, once the 64-bit significand is exhausted, a truncation of it)."""
    args = [("v", T), Arg("out", "i64", "arr", n=2, out=True, init="uninit")]
    body = ("    auto d = cnl::_impl::descale<%s, 10>(v, cnl::power<%d>{});\n"
            "    out[0] = d.significand; out[1] = d.exponent;\n    return 0;") % (cpp(SG), E)

    def pre(env):
        return env.a["v"] > tmin(T) if signed(T) else True

    def claims(env, path):
        if path.kind != "RET":
            return [("unexpected-outcome", False)]
        if prop == "C13":
            return []
        v = env.a["v"]
        sig, e10 = env.out(path, "out")
        cl = [("same-sign", X.And(X.Iff(sig < 0, v < 0), X.Iff(X.eq(sig, 0), X.eq(v, 0))))]
        # |sig| * 10^e10 <= |v| * 2^E < (|sig| + 1) * 10^e10, exact when no precision was dropped; e10 ladder
        A, S = X.absv(v), X.absv(sig)
        le, near = False, False
        for k in range(-(abs(E) + 2), abs(E) // 3 + 5):
            if E >= 0:
                lhs, rhs = (S * 10 ** k, A * 2 ** E) if k >= 0 else (S, A * 2 ** E * 10 ** (-k))
                unit = 10 ** k if k >= 0 else 1
            else:
                lhs, rhs = (S * 10 ** k * 2 ** (-E), A) if k >= 0 else (S * 2 ** (-E), A * 10 ** (-k))
                unit = (10 ** k if k >= 0 else 1) * 2 ** (-E)
            le = X.Or(le, X.And(X.eq(e10, k), lhs <= rhs))
            near = X.Or(near, X.And(X.eq(e10, k), rhs - lhs < unit))
        # (how close the truncated significand stays is an instantiation-specific precision limit, not claimed here)
        cl += [("never-exceeds-true-magnitude", le)]
        return cl
    return Kernel(name, args, "i32", body, mode="bv", W=64 + 8 if prop == "C13" else 40 + abs(E) + 4 * (abs(E) + 8), pre=pre, claims=claims,
                  unwind=abs(E) + abs(E) // 3 + 40, max_paths=4000, timeout=60, terminates=True,
                  desc="descale<%s,10>(%s, power<%d>)" % (SG, T, E), tags={"family": "descale", "T": T, "E": E, "SG": SG})


def mk_positive(name, prop, LD, N, elo, ehi):
    """unit-level kernel: the layout stage shared by every scaled_integer to_chars call,
    cnl::_impl::to_chars_positive(first, last, significand digits, decimal exponent), with a symbolic digit string of
    symbolic length 1..LD, a symbolic decimal exponent and a symbolic buffer length -- this covers every binary
    exponent in [-70,70] at once as far as buffer handling goes (descale only chooses the digits and the exponent)"""
    args = [Arg("dg", "u8", "buf", n=LD + 1), ("nd", "u8"), ("e", "i32"), ("n", "u8"),
            Arg("buf", "u8", "buf", n=N, out=True), Arg("out", "i32", "arr", n=2, out=True, init="uninit")]
    body = ("    char* p = reinterpret_cast<char*>(buf);\n"
            "    std::string_view sv(reinterpret_cast<char const*>(dg), nd);\n"
            "    auto r = cnl::_impl::to_chars_positive(p, p + n, sv, e);\n"
            "    out[0] = static_cast<int>(r.ptr - p); out[1] = static_cast<int>(r.ec);\n    return 0;")

    def pre(env):
        dg, nd, e, n = env.a["dg"], env.a["nd"], env.a["e"], env.a["n"]
        c = [nd >= 1, nd <= LD, e >= elo, e <= ehi, n <= N, X.ne(dg[0], 48)]
        for i in range(LD + 1):
            # what to_chars_static hands over: decimal digits, then NUL padding
            c.append(X.ite(nd > i, X.And(dg[i] >= 48, dg[i] <= 57), X.eq(dg[i], 0)))
        return X.And(*c)

    def claims(env, path):
        if path.kind != "RET":
            return [("unexpected-outcome", False)]
        n = env.a["n"]
        p_off, ec = env.out(path, "out")
        after = env.out(path, "buf")
        before = env.a["buf"]
        ok = X.eq(ec, 0)
        if prop == "C14":
            # the text denotes  m * 10^s  with  m = floor(D / 10^j), s = e + j  for some 0 <= j < nd  (D = the digit
            # string read as an integer): a truncation toward zero, less than one unit of the last printed digit
            dg, nd, e = env.a["dg"], env.a["nd"], env.a["e"]
            D = 0
            for i in range(LD):
                D = X.ite(nd > i, D * 10 + (dg[i] - 48), D)
            valid, neg, m, s10 = parse_decimal(after, p_off, N)
            trunc = False
            for j in range(LD):
                trunc = X.Or(trunc, X.And(X.eq(s10 - e, j), nd > j, m * 10 ** j <= D, D - m * 10 ** j < 10 ** j))
            for k in range(1, N):   # fixed layout with trailing zeros: all digits and k of the zeros, exact
                trunc = X.Or(trunc, X.And(X.eq(e - s10, k), X.eq(m, D * 10 ** k)))
            return [("well-formed-decimal", X.Implies(ok, valid)), ("no-sign-written", X.Implies(ok, X.Not(neg))),
                    ("truncation-of-the-digits", X.Implies(ok, trunc))]
        cl = [("status-is-success-or-value_too_large", X.Or(ok, X.eq(ec, EVALUE_TOO_LARGE))),
              ("success-pointer-range", X.Implies(ok, X.And(p_off > 0, p_off <= n))),
              ("failure-pointer-is-last", X.Implies(X.Not(ok), X.eq(p_off, n)))]
        for i in range(N):
            cl.append(("byte%d-unchanged-outside-written-range" % i,
                       X.Implies(X.Or(n <= i, X.And(ok, p_off <= i)), X.eq(after[i], before[i]))))
        return cl
    rngv = random.Random("c13-positive-vectors")
    vecs = []
    for _ in range(60):
        nd = rngv.randint(1, LD)
        ds = [rngv.randint(49, 57)] + [rngv.randint(48, 57) for _ in range(nd - 1)]
        v = {"nd": nd, "e": rngv.choice([0, -1, 1, -nd, -nd - 3, 5, -8, 12, -64, 99, -99, rngv.randint(elo, ehi)]), "n": rngv.randint(0, N)}
        for i in range(LD + 1):
            v["dg_%d" % i] = ds[i] if i < nd else 0
        for i in range(N):
            v["buf_%d" % i] = rngv.randint(0, 255)
        vecs.append(v)
    return Kernel(name, args, "i32", body, mode="int" if prop == "C14" else "bv", alt_modes=("bv",) if prop == "C14" else (),
                  W=(48 if LD <= 8 else 150) + 4 * N, pre=pre, claims=claims, unwind=N + LD + 8, max_paths=60000,
                  vectors=lambda rng: vecs, timeout=60, desc="to_chars_positive(digits<=%d, 10^e e in [%d,%d], buffer 0..%d)" % (LD, elo, ehi, N),
                  tags={"family": "positive", "LD": LD})


def mk_scaled(name, T, E, prop, N=12, vrange=None, only=None):
    S = "cnl::scaled_integer<%s, cnl::power<%d>>" % (cpp(T), E)
    args = [("v", T), ("n", "u8"), Arg("buf", "u8", "buf", n=N, out=True), Arg("out", "i32", "arr", n=2, out=True, init="uninit")]
    body = ("    char* p = reinterpret_cast<char*>(buf);\n    auto r = cnl::to_chars(p, p + n, cnl::_impl::from_rep<%s>(v));\n"
            "    out[0] = static_cast<int>(r.ptr - p); out[1] = static_cast<int>(r.ec);\n    return 0;") % S

    def pre(env):
        c = [env.a["n"] <= N]
        if signed(T):
            c.append(env.a["v"] > tmin(T))
        if vrange is not None:
            # 64-bit slices: adequate buffer only (n == N), the value is the subject
            c += [env.a["v"] >= vrange[0], env.a["v"] <= vrange[1], X.eq(env.a["n"], N)]
        return X.And(*c)

    def claims(env, path):
        if path.kind != "RET":
            return [("unexpected-outcome", False)]
        n, v = env.a["n"], env.a["v"]
        p_off, ec = env.out(path, "out")
        after = env.out(path, "buf")
        before = env.a["buf"]
        ok = X.eq(ec, 0)
        cl = []
        if prop == "C13":
            cl.append(("status-is-success-or-value_too_large", X.Or(ok, X.eq(ec, EVALUE_TOO_LARGE))))
            cl.append(("success-pointer-range", X.Implies(ok, X.And(p_off > 0, p_off <= n))))
            cl.append(("failure-pointer-is-last", X.Implies(X.Not(ok), X.eq(p_off, n))))
            for i in range(N):
                cl.append(("byte%d-unchanged-outside-written-range" % i,
                           X.Implies(X.Or(n <= i, X.And(ok, p_off <= i)), X.eq(after[i], before[i]))))
        else:
            cl += text_claims(after, p_off, ok, v, E, N, svr=(-14, 15) if vrange is None else (-4, 5))
            if only is not None:
                cl = [c for c in cl if c[0] in only]
        return cl
    return Kernel(name, args, "i32", body, mode="int", alt_modes=("bv",), W=48 if prop == "C13" else 110 + (0 if bits(T) <= 16 else 140), pre=pre, claims=claims, unwind=80, max_paths=40000,
                  arg_ranges={"v": vrange, "n": (N, N)} if vrange is not None else None,
                  vectors=(lambda rng: [dict({"v": rng.randint(*vrange), "n": N}, **{"buf_%d" % i: rng.randint(0, 255) for i in range(N)}) for _ in range(24)]) if vrange is not None else None,
                  timeout=60, desc="to_chars(scaled_integer<%s,%d>)%s" % (T, E, "" if vrange is None else " v in [%d,%d], n = %d" % (vrange + (N,))),
                  tags={"family": "scaled", "T": T, "E": E})


def text_claims(b, L, ok, v, E, N, svr=(-14, 15)):
    """parse  -?d+ | -?d*.d+ | -?d(.d+)?e-?d+  symbolically (fold over the N buffer positions) and compare the
    denoted decimal with the exact value v * 2^E: same sign, never above the true magnitude, less than one unit of the
    last printed digit below it"""
    valid, neg, m, s10 = parse_decimal(b, L, N)
    return value_claims(valid, neg, m, s10, ok, v, E, svr)


def parse_decimal(b, L, N):
    """-> (well-formed, has a leading '-', significand digits read as an integer, decimal exponent of its last digit)"""
    neg = X.And(L > 0, X.eq(b[0], 45))
    m = 0          # significand digits read so far (integer)
    k = 0          # number of significand digits after the '.'
    seen_dot = False
    seen_e = False
    eneg = False
    ev = 0
    nd = 0         # significand digit count
    ned = 0        # exponent digit count
    valid = True
    for i in range(N):
        c = b[i]
        act = L > i
        isd = X.And(c >= 48, c <= 57)
        dv = c - 48
        is_sign = X.eq(c, 45)
        is_dot = X.eq(c, 46)
        is_e = X.eq(c, 101)
        first = (i == 0)
        prev_e = X.eq(b[i - 1], 101) if i > 0 else False
        in_sig = X.Not(seen_e) if not isinstance(seen_e, bool) else (not seen_e)
        # significand digit
        sig_digit = X.And(act, isd, in_sig)
        m = X.ite(sig_digit, m * 10 + dv, m)
        nd = X.ite(sig_digit, nd + 1, nd)
        k = X.ite(X.And(sig_digit, seen_dot), k + 1, k)
        # exponent digit
        exp_digit = X.And(act, isd, seen_e)
        ev = X.ite(exp_digit, ev * 10 + dv, ev)
        ned = X.ite(exp_digit, ned + 1, ned)
        # structure
        ok_char = X.Or(isd,
                       X.And(is_sign, X.Or(first, prev_e)),
                       X.And(is_dot, in_sig, X.Not(seen_dot) if not isinstance(seen_dot, bool) else (not seen_dot)),
                       X.And(is_e, in_sig, nd > 0))
        valid = X.And(valid, X.Implies(act, ok_char))
        eneg = X.Or(eneg, X.And(act, is_sign, prev_e))
        seen_dot = X.Or(seen_dot, X.And(act, is_dot, in_sig))
        seen_e = X.Or(seen_e, X.And(act, is_e))
    # ("8." -- a radix point without fraction digits -- parses as a decimal and is accepted)
    valid = X.And(valid, nd > 0, X.Implies(seen_e, ned > 0))
    e10 = X.ite(eneg, -ev, ev)
    s10 = X.ite(seen_e, e10, 0) - k       # text = +-m * 10^s10
    return valid, neg, m, s10


def value_claims(valid, neg, m, s10, ok, v, E, svr=(-14, 15)):
    mag = X.absv(v)
    # exact |value| = mag * 2^E.  Compare m*10^s10 with mag*2^E without fractions: ladder over s10 in [-24, 24]
    A = mag * (1 << E) if E >= 0 else mag           # |value| * 2^max(-E,0)
    sc2 = 1 if E >= 0 else (1 << (-E))
    le = False
    near = False
    for sv in range(*svr):
        if sv >= 0:
            t = m * (10 ** sv) * sc2
            unit = (10 ** sv) * sc2
            c_le, c_near = t <= A, A - t < unit
        else:
            t = m * sc2
            c_le, c_near = t <= A * (10 ** (-sv)), A * (10 ** (-sv)) - t < sc2
        le = X.Or(le, X.And(X.eq(s10, sv), c_le))
        near = X.Or(near, X.And(X.eq(s10, sv), c_near))
    return [("well-formed-decimal", X.Implies(ok, valid)),
            ("sign-of-the-value", X.Implies(ok, X.Iff(neg, v < 0))),
            ("never-exceeds-true-magnitude", X.Implies(ok, le)),
            ("within-one-unit-of-last-digit", X.Implies(ok, near))]
