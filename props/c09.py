"""C09 - narrowing conversions under a rounding mode are correctly rounded."""
import random
import z3
from .common import *
from .c01 import sc, fits
from . import fpx
from vlib import ex as X

EXPLANATION = ("C09: convert<RoundingTag, Dst>(src) (and construction of rounding_integer / static_number from floating "
               "point) is executed symbolically for float/double/long double sources and for finer-resolution "
               "scaled_integer sources; the result is proved to be the multiple of the destination resolution selected "
               "by the mode from the EXACT source value (oracle: roundToIntegral in a 113-bit format / exact integers) "
               "for every source whose rounded result is representable; conversions losing no digits are exact.")
BOUNDS = {"quick": "sources f32/f64/f80 -> destinations i8..u64 (seeded sample) x tags {nearest, tie_to_pos_inf, neg_inf, native}; scaled(E1)->scaled(E2>E1) for reps i8..i64 and gaps {1,2,7,8,15,31}; no-loss conversions",
          "thorough": "all destination types per source type"}

RT = {"nearest": "cnl::nearest_rounding_tag", "tiepos": "cnl::tie_to_pos_inf_rounding_tag",
      "neginf": "cnl::neg_inf_rounding_tag", "native": "cnl::native_rounding_tag"}


def fp_rounded(tag, w):
    """w: exact value in the wide format -> integral wide value per mode"""
    if tag == "nearest":
        return z3.fpRoundToIntegral(fpx.RNA, w)
    if tag == "tiepos":
        return z3.fpRoundToIntegral(fpx.RTN, z3.fpAdd(fpx.RNE, w, z3.FPVal(0.5, fpx.WIDE)))
    if tag == "neginf":
        return z3.fpRoundToIntegral(fpx.RTN, w)
    return z3.fpRoundToIntegral(fpx.RTZ, w)


def int_rounded(tag, a, k):
    """round a / 2^k (k > 0) per mode on exact integers"""
    m = 1 << k
    if tag == "nearest":
        q = X.fdiv(2 * X.absv(a) + m, 2 * m)
        return X.ite(a < 0, -q, q)
    if tag == "tiepos":
        return X.fdiv(2 * a + m, 2 * m)
    if tag == "neginf":
        return X.fdiv(a, m)
    return X.tdiv(a, m)


def mk_f2i(name, F, D, tag, form):
    nb = bits(D) + 8
    if form == "convert":
        body = "    return cnl::convert<%s, %s>{}(a);" % (RT[tag], cpp(D))
    else:
        body = "    return cnl::unwrap(cnl::rounding_integer<%s, %s>{a});" % (cpp(D), RT[tag])

    def t_of(env):
        return fp_rounded(tag, fpx.wide(env.a["a"]))

    def pre(env):
        return z3.And(fpx.finite(env.a["a"]), fpx.in_range(t_of(env), tmin(D), tmax(D)))

    def claims(env, path):
        if path.kind != "RET":
            return [("unexpected-outcome", False)]
        return [("correctly-rounded", fpx.ret_bv(env, path, D, nb) == fpx.to_int(t_of(env), nb))]
    return Kernel(name, [("a", F)], D, body, mode="bv", W=nb, pre=pre, claims=claims, timeout=90,
                  desc="%s -> %s [%s] (%s)" % (F, D, tag, form), tags={"family": "f2i", "F": F, "D": D, "tag": tag})


def mk_f2s(name, F, RD, E, tag):
    nb = bits(RD) + 8
    decl = "using {n}_D = %s;\n" % sc(cpp(RD), E)
    body = "    return cnl::unwrap(cnl::convert<%s, {n}_D>{}(a));" % RT[tag]

    def t_of(env):
        return fp_rounded(tag, fpx.scale(fpx.wide(env.a["a"]), -E))

    def pre(env):
        return z3.And(fpx.finite(env.a["a"]), fpx.in_range(t_of(env), tmin(RD), tmax(RD)))

    def claims(env, path):
        if path.kind != "RET":
            return [("unexpected-outcome", False)]
        return [("correctly-rounded", fpx.ret_bv(env, path, RD, nb) == fpx.to_int(t_of(env), nb))]
    return Kernel(name, [("a", F)], RD, body.replace("{n}", name), decls=decl.replace("{n}", name), mode="bv", W=nb,
                  pre=pre, claims=claims, timeout=90, desc="%s -> %s:%d [%s]" % (F, RD, E, tag),
                  tags={"family": "f2s", "F": F, "D": RD, "tag": tag, "E": E})


def mk_s2s(name, RS, E1, RD, E2, tag):
    decl = "using {n}_S = %s;\nusing {n}_D = %s;\n" % (sc(cpp(RS), E1), sc(cpp(RD), E2))
    body = "    return cnl::unwrap(cnl::convert<%s, {n}_D>{}(cnl::_impl::from_rep<{n}_S>(a)));" % RT[tag]
    k = E2 - E1

    def exact(env):
        a = env.a["a"]
        return int_rounded(tag, a, k) if k > 0 else a * (1 << (-k))

    def pre(env):
        return fits(exact(env), RD)

    def claims(env, path):
        if path.kind != "RET":
            return [("unexpected-outcome", False)]
        return [("correctly-rounded" if k > 0 else "exact-no-loss", X.eq(env.ret(path), exact(env)))]
    return Kernel(name, [("a", RS)], RD, body.replace("{n}", name), decls=decl.replace("{n}", name), mode="bv",
                  W=max(bits(RS), bits(RD)) + abs(k) + 10, pre=pre, claims=claims,
                  desc="%s:%d -> %s:%d [%s]" % (RS, E1, RD, E2, tag),
                  tags={"family": "s2s", "S": RS, "D": RD, "tag": tag, "k": k, "PS": promote(RS), "Ss": signed(RS), "E1": E1, "up": k < 0})


def kernels(opts):
    tier = opts["tier"]
    rng = random.Random("c09/%s/%s" % (opts["seed"], tier))
    ks = []
    dsts = I8
    for tag in RT:
        for F in ("f32", "f64", "f80"):
            for D in (rng.sample(dsts, 3) if tier == "quick" else dsts):
                ks.append(mk_f2i("K%d" % len(ks), F, D, tag, "convert"))
            ks.append(mk_f2i("K%d" % len(ks), F, rng.choice(["i16", "i32", "i64"]), tag, "rounding_integer"))
        for _ in range(5 if tier == "quick" else 30):
            F = rng.choice(["f32", "f64", "f80"])
            ks.append(mk_f2s("K%d" % len(ks), F, rng.choice(["i8", "i16", "i32", "i64"]), rng.choice([-16, -8, -1, 1, 4, rng.randint(-30, 30)]), tag))
        for _ in range(10 if tier == "quick" else 60):
            RS = rng.choice(["i8", "i16", "i32", "i64"])
            RD = rng.choice(["i8", "i16", "i32", "i64"])
            gap = rng.choice([1, 2, 7, 8, 15, 31])
            if gap >= bits(promote(RS)) - 1:
                continue
            E1 = rng.choice([-40, -16, -8, -1, 0, 3])
            ks.append(mk_s2s("K%d" % len(ks), RS, E1, RD, E1 + gap, tag))
        for _ in range(3 if tier == "quick" else 12):
            RS, RD = rng.choice(["i8", "i16", "i32"]), rng.choice(["i32", "i64"])
            E1 = rng.choice([-8, 0, 5])
            ks.append(mk_s2s("K%d" % len(ks), RS, E1, RD, E1 - rng.choice([0, 1, 4]), tag))
    return ks
