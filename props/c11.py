"""C11 - static_integer and static_number are never silently wrong."""
import random
from .common import *
from .c06 import expected_cases
from .c08 import rounded
from .c09 import int_rounded
from vlib import ex as X
from vlib.check import outcome_claim

EXPLANATION = ("C11: operations, comparisons, narrowing conversions and short expression chains on static_integer / "
               "static_number are executed symbolically with inputs constrained only to their declared digits; every "
               "path is proved to end either with the exact mathematical result (rounded by the type's rounding mode "
               "where the statement allows it: division, precision-losing conversion) or with the signal of the "
               "overflow tag, the latter only when the exact result does not fit the destination's declared digits.")
BOUNDS = {"quick": "digits {7,15,24,31}, exponents {-16,-8,-1,0,4}, rounding {nearest, native, neg_inf, tie_to_pos_inf}, overflow {saturated, throwing, trapping, undefined}, narrowest int; catalogue of ~20 shapes (single ops, narrowing, chains of 2-3 ops), seeded third of the product; both compiler views for a sample",
          "thorough": "full product, narrowest int64"}

OPTS = {"quick": {"kernel_budget": 400}, "thorough": {"kernel_budget": 2400}}

RT = {"nearest": "cnl::nearest_rounding_tag", "native": "cnl::native_rounding_tag", "neginf": "cnl::neg_inf_rounding_tag",
      "tiepos": "cnl::tie_to_pos_inf_rounding_tag"}
OT = {"sat": "cnl::saturated_overflow_tag", "thr": "cnl::_impl::throwing_overflow_tag", "trp": "cnl::trapping_overflow_tag",
      "und": "cnl::undefined_overflow_tag"}


def SI(D, r, o):
    return "cnl::static_integer<%d, %s, %s>" % (D, RT[r], OT[o])


def SN(D, E, r, o):
    return "cnl::static_number<%d, %d, %s, %s>" % (D, E, RT[r], OT[o])


def inr(v, D):
    return X.And(v >= -((1 << D) - 1), v <= (1 << D) - 1)


def cases_for(o, e, D):
    """acceptable outcomes when the final type has D digits: the exact value, or the tag's overflow signal.
    The statement forbids SILENT wrong values; it does not forbid a signal raised by an intermediate step
    (e.g. from + half() inside a rounding conversion), so a signal is accepted for any input."""
    lo, hi = -((1 << D) - 1), (1 << D) - 1
    inrng = X.And(e >= lo, e <= hi)
    if o == "sat":
        return [("RET", inrng, e), ("RET", True, hi), ("RET", True, lo)]
    if o == "thr":
        return [("RET", inrng, e), ("THROW", True, "overflow_error")]
    return [("RET", inrng, e), ("TRAP", True, "positive overflow"), ("TRAP", True, "negative overflow")]


def mk(name, shape, args, body, exact, pre_extra, r, o, Dres, views=("gcc",), desc="", splits=None, mode="int", tags=None):
    """exact(env) -> exact expected value (already rounded where allowed); Dres = digits of the final type or None
    (None: result type is wide enough, only RET(exact) is acceptable)"""
    def pre(env):
        c = [inr(env.a[n], D) for (n, D) in args]
        if pre_extra:
            c.append(pre_extra(env))
        return X.And(*c)

    def claims(env, path):
        if path.kind == "UB":
            return []
        e = exact(env)
        if Dres is None:
            return [("exact-or-signalled", outcome_claim(env, path, [("RET", True, e)]))]
        return [("exact-or-signalled", outcome_claim(env, path, cases_for(o, e, Dres)))]
    return Kernel(name, [(n, "i32" if D <= 31 else "i64") for (n, D) in args], "i64", body, mode=mode, alt_modes=("bv",) if mode == "int" else (),
                  W=136, views=views, pre=pre, claims=claims, splits=splits, desc=desc or shape,
                  tags=dict({"shape": shape, "r": r, "o": o}, **(tags or {})))


def sign_splits2(x, y):
    def f(env):
        a, b = env.a[x], env.a[y]
        return [X.And(a >= 0, b > 0), X.And(a >= 0, b < 0), X.And(a < 0, b > 0), X.And(a < 0, b < 0)]
    return f


def catalogue(rng, tier):
    out = []
    Ds = [7, 15, 24, 31]
    for r in RT:
        for o in OT:
            D1, D2, D3 = rng.choice(Ds), rng.choice(Ds), rng.choice([7, 15, 24])
            T1, T2, T3 = SI(D1, r, o), SI(D2, r, o), SI(D3, r, o)
            ret = "    return static_cast<std::int64_t>(cnl::unwrap(r));"
            for opn, sym in (("add", "+"), ("sub", "-"), ("mul", "*")):
                out.append(dict(shape="si_%s" % opn, args=[("a", D1), ("b", D2)],
                                body="    auto r = verif::mk<%s>(a) %s verif::mk<%s>(b);\n%s" % (T1, sym, T2, ret),
                                exact=(lambda opn: lambda env: {"add": env.a["a"] + env.a["b"], "sub": env.a["a"] - env.a["b"], "mul": env.a["a"] * env.a["b"]}[opn])(opn),
                                pre=None, r=r, o=o, Dres=None, desc="static_integer<%d> %s <%d> [%s,%s]" % (D1, sym, D2, r, o)))
            out.append(dict(shape="si_div", args=[("a", D1), ("b", D2)],
                            body="    auto r = verif::mk<%s>(a) / verif::mk<%s>(b);\n%s" % (T1, T2, ret),
                            exact=(lambda r: lambda env: rounded({"nearest": "nearest", "native": "native", "neginf": "neginf", "tiepos": "tiepos"}[r], env.a["a"], env.a["b"]))(r),
                            pre=lambda env: X.ne(env.a["b"], 0), r=r, o=o, Dres=None, splits=sign_splits2("a", "b"),
                            desc="static_integer<%d> / <%d> [%s,%s]" % (D1, D2, r, o), tags={"D1": D1, "div": True}))
            out.append(dict(shape="si_narrow", args=[("a", D1)],
                            body="    %s r = verif::mk<%s>(a);\n%s" % (T3, T1, ret),
                            exact=lambda env: env.a["a"], pre=None, r=r, o=o, Dres=D3,
                            desc="static_integer<%d> -> <%d> [%s,%s]" % (D1, D3, r, o)))
            out.append(dict(shape="si_mul_narrow", args=[("a", D1), ("b", D2)],
                            body="    %s r = verif::mk<%s>(a) * verif::mk<%s>(b);\n%s" % (T3, T1, T2, ret),
                            exact=lambda env: env.a["a"] * env.a["b"], pre=None, r=r, o=o, Dres=D3,
                            desc="T<%d>{T<%d> * T<%d>} [%s,%s]" % (D3, D1, D2, r, o)))
            out.append(dict(shape="si_muladd", args=[("a", D1), ("b", D2), ("c", D3)],
                            body="    auto r = (verif::mk<%s>(a) * verif::mk<%s>(b)) + verif::mk<%s>(c);\n%s" % (T1, T2, T3, ret),
                            exact=lambda env: env.a["a"] * env.a["b"] + env.a["c"], pre=None, r=r, o=o, Dres=None,
                            desc="(T<%d>*T<%d>)+T<%d> [%s,%s]" % (D1, D2, D3, r, o)))
            out.append(dict(shape="si_compound", args=[("a", D3), ("b", D2), ("c", D1)],
                            body="    auto x = verif::mk<%s>(a);\n    x += verif::mk<%s>(b);\n    x *= verif::mk<%s>(c);\n    auto r = x;\n%s" % (T3, T2, T1, ret),
                            exact=None, pre=None, r=r, o=o, Dres=D3, desc="x<%d> += <%d>; x *= <%d> [%s,%s]" % (D3, D2, D1, r, o),
                            two_step=(D3,)))
            # static_number
            E1, E2 = rng.choice([-16, -8, -1, 0, 4]), rng.choice([-16, -8, -1, 0, 4])
            N1, N2 = SN(D1, E1, r, o), SN(D2, E2, r, o)
            out.append(dict(shape="sn_mul", args=[("a", D1), ("b", D2)],
                            body="    auto r = verif::mk<%s>(a) * verif::mk<%s>(b);\n    static_assert(cnl::_impl::tag_of_t<decltype(r)>::exponent == %d);\n%s" % (N1, N2, E1 + E2, ret),
                            exact=lambda env: env.a["a"] * env.a["b"], pre=None, r=r, o=o, Dres=None,
                            desc="static_number<%d,%d> * <%d,%d> [%s,%s]" % (D1, E1, D2, E2, r, o)))
            e = min(E1, E2)
            out.append(dict(shape="sn_add", args=[("a", D1), ("b", D2)],
                            body="    auto r = verif::mk<%s>(a) + verif::mk<%s>(b);\n    static_assert(cnl::_impl::tag_of_t<decltype(r)>::exponent == %d);\n%s" % (N1, N2, e, ret),
                            exact=(lambda s1, s2: lambda env: env.a["a"] * (1 << s1) + env.a["b"] * (1 << s2))(E1 - e, E2 - e),
                            pre=None, r=r, o=o, Dres=None, desc="static_number<%d,%d> + <%d,%d> [%s,%s]" % (D1, E1, D2, E2, r, o)))
            k = rng.choice([1, 3, 8])
            N3 = SN(D3, E1 + k, r, o)
            out.append(dict(shape="sn_coarsen", args=[("a", D1)],
                            body="    %s r = verif::mk<%s>(a);\n%s" % (N3, N1, ret),
                            exact=(lambda r, k: lambda env: int_rounded(r if r != "native" else "native", env.a["a"], k))(r, k),
                            pre=None, r=r, o=o, Dres=D3, desc="static_number<%d,%d> -> <%d,%d> [%s,%s]" % (D1, E1, D3, E1 + k, r, o),
                            tags={"k": k, "D1": D1, "gapdeep": k > D1}))
            out.append(dict(shape="sn_lt", args=[("a", D1), ("b", D2)], cmp=True,
                            body="    return verif::mk<%s>(a) < verif::mk<%s>(b);" % (N1, N2),
                            exact=(lambda s1, s2: lambda env: env.a["a"] * (1 << s1) < env.a["b"] * (1 << s2))(E1 - e, E2 - e),
                            pre=None, r=r, o=o, Dres=None, desc="static_number<%d,%d> < <%d,%d> [%s,%s]" % (D1, E1, D2, E2, r, o)))
    return out


def mk_wide_mul(name, r, o):
    """static_integer<64> * static_integer<64>: the 128-digit product needs multi-word (wide_integer) storage"""
    T = SI(64, r, o)
    body = ("    auto p = verif::mk<%s>(a) * verif::mk<%s>(b);\n    auto w = cnl::unwrap(p);\n"
            "    out[0] = static_cast<std::uint64_t>(w); out[1] = static_cast<std::uint64_t>(w >> 64);\n"
            "    out[2] = (p > 0) ? 1 : 0; out[3] = cnl::digits_v<decltype(p)>;\n    return 0;") % (T, T)
    args = [("a", "u64"), ("b", "u64"), Arg("out", "u64", "arr", n=4, out=True, init="uninit")]

    def claims(env, path):
        if path.kind != "RET":
            return [("unexpected-outcome", path.kind == "UB")] if path.kind != "UB" else []
        a, b = env.a["a"], env.a["b"]
        o_ = env.out(path, "out")
        prod = a * b
        return [("exact-128-digit-product", X.eq(o_[0] + o_[1] * (1 << 64), prod)),
                ("sign-of-product", X.eq(o_[2], X.ite(prod > 0, 1, 0))), ("result-digits", X.eq(o_[3], 128))]
    return Kernel(name, args, "i32", body, mode="int", alt_modes=("bv",), W=136, claims=claims, unwind=60, timeout=25,
                  desc="static_integer<64> * static_integer<64> (multi-word 128-digit product) [%s,%s]" % (r, o),
                  tags={"shape": "si_mul_wide", "r": r, "o": o})


def kernels(opts):
    tier = opts["tier"]
    rng = random.Random("c11/%s/%s" % (opts["seed"], tier))
    cat = catalogue(rng, tier)
    if tier == "quick":
        cat = seeded_subset(cat, 0.34, opts["seed"], "c11")
    ks = []
    for c in cat:
        n = "K%d" % len(ks)
        views = ("gcc", "clang") if rng.random() < 0.3 else ("gcc",)
        if c.get("cmp"):
            def mkclaims(c):
                def claims(env, path):
                    if path.kind != "RET":
                        return [("unexpected-outcome", path.kind == "UB")] if path.kind != "UB" else []
                    return [("order", X.Iff(env.ret(path), c["exact"](env)))]
                return claims
            argl = c["args"]
            ks.append(Kernel(n, [(a, "i32") for (a, D) in argl], "bool", c["body"], mode="bv", W=80, views=views,
                             pre=(lambda argl: lambda env: X.And(*[inr(env.a[a], D) for (a, D) in argl]))(argl),
                             claims=mkclaims(c), desc=c["desc"], tags={"shape": c["shape"], "r": c["r"], "o": c["o"]}))
            continue
        if c.get("two_step"):
            D3 = c["two_step"][0]
            o = c["o"]
            lo, hi = -((1 << D3) - 1), (1 << D3) - 1

            def mkclaims2(o, lo, hi):
                def claims(env, path):
                    if path.kind == "UB":
                        return []
                    a, b, cc = env.a["a"], env.a["b"], env.a["c"]
                    s1 = a + b
                    ok1 = X.And(s1 >= lo, s1 <= hi)
                    if o == "sat":
                        v1 = X.ite(s1 > hi, hi, X.ite(s1 < lo, lo, s1))
                        s2 = v1 * cc
                        v2 = X.ite(s2 > hi, hi, X.ite(s2 < lo, lo, s2))
                        return [("exact-or-signalled", outcome_claim(env, path, [("RET", True, v2)]))]
                    s2 = s1 * cc
                    ok = X.And(ok1, s2 >= lo, s2 <= hi)
                    sig = [("THROW", X.Not(ok), "overflow_error")] if o == "thr" else [("TRAP", X.Not(ok), "positive overflow"), ("TRAP", X.Not(ok), "negative overflow")]
                    return [("exact-or-signalled", outcome_claim(env, path, [("RET", ok, s2)] + sig))]
                return claims
            argl = c["args"]
            ks.append(Kernel(n, [(a, "i32") for (a, D) in argl], "i64", c["body"], mode="int", alt_modes=("bv",), W=136, views=views,
                             pre=(lambda argl: lambda env: X.And(*[inr(env.a[a], D) for (a, D) in argl]))(argl),
                             claims=mkclaims2(o, lo, hi), desc=c["desc"], tags={"shape": c["shape"], "r": c["r"], "o": o}))
            continue
        ks.append(mk(n, c["shape"], c["args"], c["body"], c["exact"], c["pre"], c["r"], c["o"], c["Dres"], views=views,
                     desc=c["desc"], splits=c.get("splits"), tags=c.get("tags")))
    # unsigned narrowest types (always run): the result of unary minus / subtraction is signed and one digit is never lost
    for (D, NT, at) in ((8, "unsigned", "u32"), (16, "std::uint16_t", "u32"), (31, "unsigned", "u32"), (32, "unsigned", "u32"), (32, "std::uint8_t", "u32")):
        for (r, o) in (("nearest", "thr"), ("native", "sat")):
            T = "cnl::static_integer<%d, %s, %s, %s>" % (D, RT[r], OT[o], NT)

            def upre(D):
                return lambda env: X.And(*[X.And(env.a[k] >= 0, env.a[k] <= (1 << D) - 1) for k in env.a])

            def uclaims(f):
                def claims(env, path):
                    if path.kind == "UB":
                        return []
                    return [("exact-or-signalled", outcome_claim(env, path, [("RET", True, f(env))]))]
                return claims
            ks.append(Kernel("K%d" % len(ks), [("a", at)], "i64", "    auto r = -verif::mk<%s>(a);\n    return static_cast<std::int64_t>(cnl::unwrap(r));" % T,
                             mode="bv", W=80, pre=upre(D), claims=uclaims(lambda env: -env.a["a"]),
                             desc="-static_integer<%d,%s> [%s,%s]" % (D, NT, r, o), tags={"shape": "si_neg_unsigned", "r": r, "o": o}))
            ks.append(Kernel("K%d" % len(ks), [("a", at), ("b", at)], "i64",
                             "    auto r = verif::mk<%s>(a) - verif::mk<%s>(b);\n    return static_cast<std::int64_t>(cnl::unwrap(r));" % (T, T),
                             mode="bv", W=80, pre=upre(D), claims=uclaims(lambda env: env.a["a"] - env.a["b"]),
                             desc="static_integer<%d,%s> - same [%s,%s]" % (D, NT, r, o), tags={"shape": "si_sub_unsigned", "r": r, "o": o}))
    # comparisons with a built-in integer that the static type cannot represent, judged by value (always run)
    CMPS = {"eq": "==", "ne": "!=", "lt": "<", "le": "<=", "gt": ">", "ge": ">="}
    for (T, D, E) in ((SI(8, "nearest", "sat"), 8, 0), (SN(6, 2, "nearest", "sat"), 6, 2), (SN(12, -3, "native", "thr"), 12, -3)):
        for opn, sym in CMPS.items():
            for side in (0, 1):
                body = ("    return verif::mk<%s>(a) %s b;" if side == 0 else "    return b %s verif::mk<%s>(a);")
                body = body % ((T, sym) if side == 0 else (sym, T))

                def cpre(D, E):
                    return lambda env: X.And(inr(env.a["a"], D), env.a["b"] >= -(1 << 20), env.a["b"] <= (1 << 20))

                def cclaims(opn, side, E):
                    def claims(env, path):
                        if path.kind != "RET":
                            return []   # an overflow signal is not a *silent* wrong value (UB is C07's subject)
                        x, y = env.a["a"], env.a["b"]
                        if E >= 0:
                            x = x * (1 << E)
                        else:
                            y = y * (1 << (-E))
                        if side == 1:
                            x, y = y, x
                        exp = {"eq": X.eq(x, y), "ne": X.ne(x, y), "lt": x < y, "le": x <= y, "gt": x > y, "ge": x >= y}[opn]
                        return [("order-by-value", X.Iff(env.ret(path), exp))]
                    return claims
                ks.append(Kernel("K%d" % len(ks), [("a", "i32"), ("b", "i32")], "bool", body, mode="bv", W=80, pre=cpre(D, E),
                                 claims=cclaims(opn, side, E), desc="%s %s built-in int (side %d), by value" % (T.replace("cnl::", ""), sym, side),
                                 tags={"shape": "cmp_builtin", "r": "-", "o": "-"}))
    ks.append(mk_wide_mul("K%d" % len(ks), "nearest", "sat"))
    if tier != "quick":
        ks.append(mk_wide_mul("K%d" % len(ks), "native", "thr"))
    return ks
