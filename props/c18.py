"""C18 - bit and digit-counting utilities match the C++20 <bit> definitions everywhere."""
from .common import *
from vlib import ex as X

EXPLANATION = ("C18: every bit utility is executed symbolically for every value of the type (and every rotation count "
               "in [0, 2*width]) in both compiler views (GCC intrinsic specialisations, Clang generic recursive "
               "definitions, unrolled with an unwinding obligation) and proved equal to an arithmetic definition "
               "(bit length ladder, lowest-set-bit ladder, digit sum); no undefined operation may be reachable.")
BOUNDS = {"quick": "types u8,u16,u32,u64 (signed i8..i64 for the signed utilities); recursion unwound to width+2; rotation counts 0..2*width",
          "thorough": "adds u128/i128"}


def bitlen(x, n):
    r = 0
    for k in range(n):
        r = X.ite(x >= (1 << k), k + 1, r)
    return r


def ctz(x, n):
    r = n
    for k in range(n - 1, -1, -1):
        r = X.ite(X.eq(x % (1 << (k + 1)), 1 << k), k, r)
    return r


def popcnt(x, n):
    r = 0
    for k in range(n):
        r = r + (x / (1 << k)) % 2 if not isinstance(x, int) else r + ((x >> k) & 1)
    return r


def ones_compl(x, n):
    return ((1 << n) - 1) - x


def rot(x, s, n, left):
    r = x
    for k in range(1, n):
        kk = k if left else n - k
        v = (x * (1 << kk)) % (1 << n) + (x / (1 << (n - kk)) if not isinstance(x, int) else x >> (n - kk))
        r = X.ite(X.eq(s % n, k), v, r)
    return r


def mag(x):
    """value bits of the two's complement form: x for x>=0, -x-1 for x<0"""
    return X.ite(x < 0, -x - 1, x)


UNS = {
    "countl_zero": ("i32", lambda x, n: n - bitlen(x, n)),
    "countl_one": ("i32", lambda x, n: n - bitlen(ones_compl(x, n), n)),
    "countr_zero": ("i32", lambda x, n: ctz(x, n)),
    "countr_one": ("i32", lambda x, n: ctz(ones_compl(x, n), n)),
    "popcount": ("i32", lambda x, n: popcnt(x, n)),
    "ispow2": ("bool", None),
    "floor2": ("T", lambda x, n: X.ite(X.eq(x, 0), 0, floor2(x, n))),
    "ceil2": ("T", None),
    "log2p1": ("i32", lambda x, n: bitlen(x, n)),
    "countl_rb": ("i32", lambda x, n: n - bitlen(x, n)),
    "countr_used": ("i32", lambda x, n: bitlen(x, n)),
    "used_digits": ("i32", lambda x, n: bitlen(x, n)),
    "leading_bits": ("i32", lambda x, n: n - bitlen(x, n)),
    "trailing_bits": ("i32", lambda x, n: X.ite(X.eq(x, 0), 0, ctz(x, n))),
}
SIG = {
    "countl_rsb": ("i32", lambda x, n: (n - 1) - bitlen(mag(x), n)),
    "countl_rb": ("i32", lambda x, n: (n - 1) - bitlen(mag(x), n)),
    "countr_used": ("i32", lambda x, n: bitlen(mag(x), n)),
    "used_digits": ("i32", lambda x, n: bitlen(mag(x), n)),
    "leading_bits": ("i32", lambda x, n: (n - 1) - bitlen(mag(x), n)),
    "trailing_bits": ("i32", lambda x, n: X.ite(X.eq(x, 0), 0, ctz(X.ite(x < 0, x + (1 << n), x), n))),
}


def floor2(x, n):
    r = 0
    for k in range(n):
        r = X.ite(x >= (1 << k), 1 << k, r)
    return r


def ceil2(x, n):
    r = 0
    for k in range(n - 1, -1, -1):
        r = X.ite(x <= (1 << k), 1 << k, r)
    return X.ite(X.eq(x, 0), 0, r)


def mk(name, fn, T, table):
    n = bits(T)
    rt, orc = table[fn]
    ret = T if rt == "T" else rt
    call = "cnl::%s(a)" % fn
    if fn == "used_digits":
        call = "cnl::used_digits(a)"
    body = "    return static_cast<%s>(%s);" % (cpp(ret), call)
    W = n + 10

    def pre(env):
        if fn == "ceil2":
            return env.a["a"] <= (1 << (n - 1))  # std::bit_ceil is undefined beyond this
        return True

    def claims(env, path):
        if path.kind != "RET":
            return [("unexpected-outcome", False)]
        x = env.a["a"]
        r = env.ret(path)
        if fn == "ispow2":
            exp = X.Or(*[X.eq(x, 1 << k) for k in range(n)])
            return [("value", X.Iff(r, exp))]
        if fn == "ceil2":
            return [("value", X.eq(r, ceil2(x, n)))]
        return [("value", X.eq(r, orc(x, n)))]
    return Kernel(name, [("a", T)], ret, body, mode="bv", W=W, views=("gcc", "clang"), pre=pre, claims=claims,
                  unwind=n + 3, max_paths=6000, desc="%s(%s)" % (fn, T), tags={"fn": fn, "T": T}, timeout=60)


def mk_rot(name, fn, T):
    n = bits(T)
    body = "    return cnl::%s(a, s);" % fn

    def pre(env):
        return env.a["s"] <= 2 * n

    def claims(env, path):
        if path.kind != "RET":
            return [("unexpected-outcome", False)]
        return [("value", X.eq(env.ret(path), rot(env.a["a"], env.a["s"], n, fn == "rotl")))]
    return Kernel(name, [("a", T), ("s", "u32")], T, body, mode="bv", W=max(2 * n + 10, 44), views=("gcc", "clang"), pre=pre,
                  claims=claims, desc="%s(%s, s)" % (fn, T), tags={"fn": fn, "T": T}, timeout=60)


def kernels(opts):
    tier = opts["tier"]
    # (u64/i64 are unsigned long / long here; unsigned long long / long long have their own specialisations)
    us = ["u8", "u16", "u32", "u64", "ull"] + (["u128"] if tier != "quick" else [])
    ss = ["i8", "i16", "i32", "i64", "ll"] + (["i128"] if tier != "quick" else [])
    ks = []
    for T in us:
        for fn in UNS:
            ks.append(mk("K%d" % len(ks), fn, T, UNS))
        for fn in ("rotl", "rotr"):
            ks.append(mk_rot("K%d" % len(ks), fn, T))
    for T in ss:
        for fn in SIG:
            ks.append(mk("K%d" % len(ks), fn, T, SIG))
    return ks
