"""shared helpers for property modules"""
from vlib import core
from vlib.core import Kernel, Arg, CT, cpp, bits, signed, tmin, tmax

I8 = ["i8", "u8", "i16", "u16", "i32", "u32", "i64", "u64"]
I128 = I8 + ["i128", "u128"]


def promote(t):
    """C++ integral promotion of a built-in type name"""
    if bits(t) < 32:
        return "i32"
    return t


def usual(a, b):
    """usual arithmetic conversions for two built-in integer type names"""
    a, b = promote(a), promote(b)
    if a == b:
        return a
    ba, bb = bits(a), bits(b)
    sa, sb = signed(a), signed(b)
    if sa == sb:
        return a if ba >= bb else b
    # mixed signedness
    u, s = (a, b) if not sa else (b, a)
    if bits(u) >= bits(s):
        return u
    return s  # signed type can represent all values of the unsigned one


def seeded_subset(items, frac, seed, salt=""):
    import random
    r = random.Random("%s/%s" % (seed, salt))
    items = list(items)
    k = max(1, int(len(items) * frac))
    return r.sample(items, k) if k < len(items) else items
