"""C04 - conversions preserve value or truncate toward zero at destination resolution."""
import random
import z3
from .common import *
from .c01 import sc, fits
from . import fpx
from vlib import ex as X
from vlib import symex

EXPLANATION = ("C04: static_cast between scaled_integer instantiations, built-in integers and float/double/long double is "
               "executed symbolically; for every source value whose (truncated) result is in the destination's range the "
               "result is proved to be the source value truncated toward zero at the destination resolution (exact when "
               "representable); scaled->floating is proved to be the correctly rounded (RNE, single rounding from the "
               "exact value in a 113-bit format) result; scaled->F->scaled is the identity when F has enough significand "
               "digits; from_rep/to_rep and wrap/unwrap are inverses.")
BOUNDS = {"quick": "reps i8..u64, exponents in [-70,70] (boundary + seeded random), float/double (long double for a sample); seeded sample",
          "thorough": "larger sample incl. long double with 64-bit reps"}


def mk_s2s(name, RS, E1, RD, E2):
    decl = "using {n}_S = %s;\nusing {n}_D = %s;\n" % (sc(cpp(RS), E1), sc(cpp(RD), E2))
    body = "    return cnl::unwrap(static_cast<{n}_D>(cnl::_impl::from_rep<{n}_S>(a)));"
    sh = E1 - E2

    def exact(env):
        a = env.a["a"]
        return a * (1 << sh) if sh >= 0 else X.tdiv(a, 1 << (-sh))

    def pre(env):
        return fits(exact(env), RD)

    def claims(env, path):
        if path.kind != "RET":
            return [("unexpected-outcome", False)]
        return [("value-or-truncation", X.eq(env.ret(path), exact(env)))]
    return Kernel(name, [("a", RS)], RD, body.replace("{n}", name), decls=decl.replace("{n}", name), mode="bv",
                  W=max(max(bits(RS), bits(RD)) + max(sh, 0) + 8, 72), pre=pre, claims=claims,
                  desc="%s:%d -> %s:%d" % (RS, E1, RD, E2),
                  tags={"family": "s2s", "S": RS, "D": RD, "sh": sh, "up": sh > 0, "PS": promote(RS),
                        "deep_unsigned": (not signed(RS)) and -sh >= bits(promote(RS)) - (1 if bits(RS) < 32 else 0)})


def mk_int(name, RS, E1, RD, to_scaled):
    if to_scaled:
        decl = "using {n}_D = %s;\n" % sc(cpp(RD), E1)
        body = "    return cnl::unwrap(static_cast<{n}_D>(a));"
        sh = -E1
    else:
        decl = "using {n}_S = %s;\n" % sc(cpp(RS), E1)
        body = "    return static_cast<%s>(cnl::_impl::from_rep<{n}_S>(a));" % cpp(RD)
        sh = E1

    def exact(env):
        a = env.a["a"]
        return a * (1 << sh) if sh >= 0 else X.tdiv(a, 1 << (-sh))

    def pre(env):
        return fits(exact(env), RD)

    def claims(env, path):
        if path.kind != "RET":
            return [("unexpected-outcome", False)]
        return [("value-or-truncation", X.eq(env.ret(path), exact(env)))]
    return Kernel(name, [("a", RS)], RD, body.replace("{n}", name), decls=decl.replace("{n}", name), mode="bv",
                  W=max(max(bits(RS), bits(RD)) + max(sh, 0) + 8, 72), pre=pre, claims=claims,
                  desc="%s %s:%d %s %s" % ("int->scaled" if to_scaled else "scaled->int", RS, E1, "->", RD),
                  tags={"family": "int", "S": RS, "D": RD, "sh": sh, "up": sh > 0, "PS": promote(RS),
                        "deep_unsigned": (not signed(RS)) and -sh >= bits(promote(RS)) - (1 if bits(RS) < 32 else 0)})


def mk_f2s(name, F, RD, E):
    decl = "using {n}_D = %s;\n" % sc(cpp(RD), E)
    body = "    return cnl::unwrap(static_cast<{n}_D>(a));"
    nb = bits(RD) + 8

    def t_of(env):
        return z3.fpRoundToIntegral(fpx.RTZ, fpx.scale(fpx.wide(env.a["a"]), -E))

    def pre(env):
        return z3.And(fpx.finite(env.a["a"]), fpx.in_range(t_of(env), tmin(RD), tmax(RD)))

    def claims(env, path):
        if path.kind != "RET":
            return [("unexpected-outcome", False)]
        return [("truncation-toward-zero", fpx.ret_bv(env, path, RD, nb) == fpx.to_int(t_of(env), nb))]
    return Kernel(name, [("a", F)], RD, body.replace("{n}", name), decls=decl.replace("{n}", name), mode="bv", W=nb,
                  pre=pre, claims=claims, desc="%s -> %s:%d" % (F, RD, E), tags={"family": "f2s", "F": F, "D": RD}, timeout=90)


def mk_s2f(name, RS, E, F):
    decl = "using {n}_S = %s;\n" % sc(cpp(RS), E)
    body = "    return static_cast<%s>(cnl::_impl::from_rep<{n}_S>(a));" % cpp(F)
    srt = symex.fpsort(core.FPNAME[F])

    def claims(env, path):
        if path.kind != "RET":
            return [("unexpected-outcome", False)]
        a = fpx.arg_bv(env, "a", RS, bits(RS) + 2, getattr(path, "concrete", False))
        exactv = fpx.scale(z3.fpSignedToFP(fpx.RNE, a, fpx.WIDE), E)
        expect = z3.fpFPToFP(fpx.RNE, exactv, srt)
        return [("correctly-rounded", fpx.fp_same(env.ret(path), expect))]
    return Kernel(name, [("a", RS)], F, body.replace("{n}", name), decls=decl.replace("{n}", name), mode="bv",
                  W=bits(RS) + 8, claims=claims, desc="%s:%d -> %s" % (RS, E, F), tags={"family": "s2f", "F": F, "S": RS}, timeout=90)


def mk_roundtrip(name, RS, E, F):
    decl = "using {n}_S = %s;\n" % sc(cpp(RS), E)
    body = "    return cnl::unwrap(static_cast<{n}_S>(static_cast<%s>(cnl::_impl::from_rep<{n}_S>(a))));" % cpp(F)

    def claims(env, path):
        if path.kind != "RET":
            return [("unexpected-outcome", False)]
        return [("identity", X.eq(env.ret(path), env.a["a"]))]
    return Kernel(name, [("a", RS)], RS, body.replace("{n}", name), decls=decl.replace("{n}", name), mode="bv",
                  W=bits(RS) + 8, claims=claims, desc="%s:%d -> %s -> back" % (RS, E, F), tags={"family": "roundtrip"}, timeout=90)


def mk_inverse(name, T, R, kind):
    if kind == "rep":
        body = "    return cnl::_impl::to_rep(cnl::_impl::from_rep<%s>(a));" % T
    else:
        body = "    return cnl::unwrap(cnl::wrap<%s>(a));" % T

    def claims(env, path):
        if path.kind != "RET":
            return [("unexpected-outcome", False)]
        return [("inverse", X.eq(env.ret(path), env.a["a"]))]
    return Kernel(name, [("a", R)], R, body, mode="bv", W=bits(R) + 8, claims=claims, desc="%s inverse on %s" % (kind, T),
                  tags={"family": "inverse"})


def kernels(opts):
    tier = opts["tier"]
    rng = random.Random("c04/%s/%s" % (opts["seed"], tier))
    n = (60, 16, 24, 24, 8) if tier == "quick" else (400, 80, 120, 120, 30)
    ks = []
    for _ in range(n[0]):
        RS, RD = rng.choice(I8), rng.choice(I8)
        E1 = rng.choice([-70, -33, -16, -8, -1, 0, 1, 8, 33, 70, rng.randint(-70, 70)])
        room = bits(promote(RD)) - 2
        sh = rng.choice([-63, -33, -9, -1, 0, 1, 7, rng.randint(-63, room)])
        sh = min(sh, room)
        E2 = E1 - sh
        if not -70 <= E2 <= 70:
            continue
        ks.append(mk_s2s("K%d" % len(ks), RS, E1, RD, E2))
    for _ in range(n[1]):
        RS, RD = rng.choice(I8), rng.choice(I8)
        E = rng.choice([-31, -8, -1, 0, 1, 5, rng.randint(-40, 20)])
        to_scaled = rng.random() < 0.5
        room = bits(promote(RD)) - 2
        if (to_scaled and -E > room) or (not to_scaled and E > room):
            continue
        ks.append(mk_int("K%d" % len(ks), RS, E, RD, to_scaled))
    # always run: down-scaling by exactly / one less / one more than the source digits (the most negative value is
    # the only one whose truncated result is non-zero there), up-scaling into a wider destination
    for (RS, E1, RD, E2) in (("i8", -7, "i32", 0), ("i8", -6, "i8", 0), ("i16", -15, "i16", 0), ("i16", -15, "i64", -1),
                             ("i8", 0, "i8", 7), ("u8", -8, "u32", 0), ("u16", -3, "i32", 12)):
        ks.append(mk_s2s("K%d" % len(ks), RS, E1, RD, E2))
    for (RS, E, RD, to_scaled) in (("i8", -7, "i32", False), ("i16", -15, "i8", False), ("i8", 7, "i8", True), ("i16", 15, "i32", True)):
        ks.append(mk_int("K%d" % len(ks), RS, E, RD, to_scaled))
    # always run: reps with more digits than the floating type's significand (correct rounding matters there)
    for (RS, E, F) in (("i64", 0, "f32"), ("u64", -1, "f32"), ("i64", -30, "f64"), ("u64", 5, "f64"), ("i32", 0, "f32"), ("u32", -8, "f32")):
        ks.append(mk_s2f("K%d" % len(ks), RS, E, F))
    fl = ["f32", "f64"] + (["f80"] if tier != "quick" else ["f80"])
    for _ in range(n[2]):
        F = rng.choice(fl)
        RD = rng.choice(I8 if F != "f80" else ["i8", "u16", "i32", "i64"])
        E = rng.choice([-70, -31, -8, -1, 0, 1, 8, 33, 70, rng.randint(-70, 70)])
        ks.append(mk_f2s("K%d" % len(ks), F, RD, E))
    for _ in range(n[3]):
        F = rng.choice(fl)
        RS = rng.choice(I8)
        E = rng.choice([-70, -31, -8, -1, 0, 1, 8, 33, 70, rng.randint(-70, 70)])
        ks.append(mk_s2f("K%d" % len(ks), RS, E, F))
    for _ in range(n[4]):
        RS, F = rng.choice([("i8", "f32"), ("u16", "f32"), ("i16", "f32"), ("i32", "f64"), ("u32", "f64"), ("i64", "f80"), ("u64", "f80"), ("i32", "f80")])
        ks.append(mk_roundtrip("K%d" % len(ks), RS, rng.choice([-70, -9, 0, 7, 70]), F))
    for (T, R) in (("cnl::scaled_integer<std::int32_t, cnl::power<-7>>", "i32"), ("cnl::elastic_integer<31>", "i32"),
                   ("cnl::overflow_integer<std::int16_t, cnl::saturated_overflow_tag>", "i16"),
                   ("cnl::rounding_integer<std::int64_t, cnl::nearest_rounding_tag>", "i64")):
        ks.append(mk_inverse("K%d" % len(ks), T, R, "rep"))
    for (T, R) in (("cnl::scaled_integer<cnl::elastic_integer<31>, cnl::power<-7>>", "i32"),
                   ("cnl::static_number<24, -8>", "i32"),
                   ("cnl::scaled_integer<cnl::rounding_integer<cnl::overflow_integer<std::int16_t, cnl::saturated_overflow_tag>, cnl::nearest_rounding_tag>, cnl::power<3>>", "i16")):
        ks.append(mk_inverse("K%d" % len(ks), T, R, "wrap"))
    return ks
