"""C20 - exp2 and the mathematical constants are accurate to one unit in the last place."""
import random
from math import isqrt
from .common import *
from .c01 import sc
from vlib import ex as X

EXPLANATION = ("C20: exp2 on 8-bit (32-bit in 256-input slices; thorough: 16-bit slices too) scaled_integer inputs is executed symbolically and compared "
               "with a table T[x] = floor(2^(x*2^E) * 2^-E) computed per run in 240-bit integer arithmetic (embedded as "
               "an ite ladder): |rep - T[x]| <= 1 for every representable result and rep == T[x] for integral x.  The "
               "<numbers> constants are ground obligations (no free variable): the IR constant c must satisfy "
               "|c*2^E - true| < 2^E against a 100-digit value.")
BOUNDS = {"quick": "exp2: Rep in {i8,u8}, every exponent leaving >= 1 integer bit, every input; Rep in {i32,u32}: 3 slices of 256 consecutive inputs per exponent in {-30,-24,-16,-8,-1,0}/{-31,-16,-4,0} (top and bottom of the representable range + seeded); constants: 13 constants x Rep in {i8..u64} x 4-5 exponents each (decided by evaluation, flagged as ground)",
          "thorough": "exp2 adds {i16,u16} sliced on the high byte (24 slices per exponent) and 24 slices per exponent for {i32,u32}; 32-bit inputs outside the sampled slices are outside the bound"}

S_BITS = 240
ONE = 1 << S_BITS
ROOTS = [2 * ONE]
for _i in range(1, 70):
    ROOTS.append(isqrt(ROOTS[-1] * ONE))  # 2^(1/2^i) * 2^240


def pow2_frac(p, k):
    """2^(p/2^k) * 2^240 for 0 <= p < 2^k"""
    r = ONE
    for i in range(1, k + 1):
        if (p >> (k - i)) & 1:
            r = (r * ROOTS[i]) >> S_BITS
    return r


def exp2_table(a, E):
    """floor(2^(a*2^E) * 2^-E) exactly enough (None if a near-integer cannot be resolved)"""
    if E >= 0:
        n, p, k = a << E, 0, 0
    else:
        k = -E
        n, p = a >> k, a & ((1 << k) - 1)
    f = pow2_frac(p, k)  # * 2^240
    sh = n - E
    v = f << sh if sh >= 0 else f >> (-sh)
    t = v >> S_BITS
    frac = v & (ONE - 1)
    if p != 0 and (frac < (1 << (S_BITS - 100)) or frac > ONE - (1 << (S_BITS - 100))):
        return None
    return t


def mk_exp2(name, T, E, slice_hi=None):
    S = sc(cpp(T), E)
    body = "    return cnl::unwrap(cnl::exp2(cnl::_impl::from_rep<%s>(a)));" % S
    lo, hi = tmin(T), tmax(T)
    vals = list(range(lo, hi + 1)) if slice_hi is None else list(range(slice_hi << 8, (slice_hi << 8) + 256))
    table = {}
    for a in vals:
        if a * (2.0 ** E) > bits(T) + 2:
            continue
        t = exp2_table(a, E)
        if t is not None and t <= hi:
            table[a] = t
    if not table:
        return None  # no input of this slice has a representable result

    def pre(env):
        a = env.a["a"]
        return X.Or(*[X.eq(a, v) for v in table]) if len(table) < 40 else X.And(X.Or(*[X.eq(a, v) for v in table]))

    def claims(env, path):
        if path.kind != "RET":
            return [("unexpected-outcome", False)]
        a = env.a["a"]
        r = env.ret(path)
        exp = 0
        integral = False
        for v, t in table.items():
            exp = X.ite(X.eq(a, v), t, exp)
        # integral x whose power 2^x is representable at this resolution (x >= E)
        ints = [v for v in table if (E >= 0 or (v & ((1 << -E) - 1)) == 0) and v * (2.0 ** E) >= E]
        isint = X.Or(*[X.eq(a, v) for v in ints]) if ints else False
        d = r - exp
        return [("within-one-unit", X.And(d >= -1, d <= 1)), ("exact-for-integral-x", X.Implies(isint, X.eq(d, 0)))]
    return Kernel(name, [("a", T)], T, body, mode="bv", W=bits(T) + 12, pre=pre, claims=claims, timeout=120,
                  desc="exp2(%s:%d)%s" % (T, E, "" if slice_hi is None else " slice %d" % slice_hi),
                  tags={"fn": "exp2", "T": T, "E": E, "entries": len(table)})


def exp2_slices32(n0, T, E, count, rng):
    """slices of a 32-bit input range on which 2^x is representable; half of them near the top of the fractional
    range / top of the result range (where an error in the polynomial is largest)"""
    lo, hi = tmin(T), tmax(T)
    d = bits(T) - (1 if signed(T) else 0)
    # x*2^E < d + E  <=>  a < (d+E) * 2^-E
    amax = min(hi, ((d + E) << -E) - 1 if E < 0 else ((d + E) >> E) if E > 0 else d - 1)
    amin = max(lo, (E << -E) if E < 0 else lo)        # below x = E the result is < one unit
    if amax < amin:
        return []
    hmin, hmax = amin >> 8, amax >> 8
    hs = {hmax, hmin, (hmax - 1) if hmax > hmin else hmax}
    # boundary-directed: the slices just below and just above integers (the integer/fraction split, fractions near 1)
    if -E >= 8:
        for n in (-1, -2, -3, -8, 0, 1, 5):
            for h in (((n << -E) >> 8) - 1, (n << -E) >> 8):
                if hmin <= h <= hmax:
                    hs.add(h)
    target = len(hs) + max(0, count - 3)
    while len(hs) < min(target, hmax - hmin + 1):
        hs.add(rng.randint(hmin, hmax))
    out = []
    for h in sorted(hs):
        k = mk_exp2("K%d" % (n0 + len(out)), T, E, slice_hi=h)
        if k is not None:
            out.append(k)
    return out


CONSTS = ["e", "log2e", "log10e", "pi", "inv_pi", "inv_sqrtpi", "ln2", "ln10", "sqrt2", "sqrt3", "inv_sqrt3", "egamma", "phi"]


def true_const(name):
    import mpmath as mp
    mp.mp.dps = 110
    return {"e": mp.e, "log2e": 1 / mp.log(2), "log10e": 1 / mp.log(10), "pi": mp.pi, "inv_pi": 1 / mp.pi,
            "inv_sqrtpi": 1 / mp.sqrt(mp.pi), "ln2": mp.log(2), "ln10": mp.log(10), "sqrt2": mp.sqrt(2),
            "sqrt3": mp.sqrt(3), "inv_sqrt3": 1 / mp.sqrt(3), "egamma": mp.euler, "phi": mp.phi}[name]


def mk_const(name, cn, T, E):
    import mpmath as mp
    S = sc(cpp(T), E)
    body = "    return cnl::unwrap(std::numbers::%s_v<%s>);" % (cn, S)
    mp.mp.dps = 110
    tv = true_const(cn) * mp.mpf(2) ** (-E)

    def claims(env, path):
        if path.kind != "RET":
            return [("unexpected-outcome", False)]
        r = env.ret_raw(path)
        if getattr(path, "concrete", False):
            c = r
        else:
            if r.c is None:
                return [("constant-folded", False)]
            c = r.sc if signed(T) else r.c
        return [("within-one-ulp", bool(abs(mp.mpf(c) - tv) < 1))]
    return Kernel(name, [], T, body, mode="bv", W=80, claims=claims, desc="%s_v<%s:%d> (ground)" % (cn, T, E),
                  tags={"fn": "const", "const": cn, "T": T, "E": E})


def kernels(opts):
    tier = opts["tier"]
    rng = random.Random("c20/%s/%s" % (opts["seed"], tier))
    ks = []
    for T in ("i8", "u8"):
        d = bits(T) - (1 if signed(T) else 0)
        for E in range(-(d - 1), 1):
            ks.append(mk_exp2("K%d" % len(ks), T, E))
    if tier != "quick":
        for T in ("i16", "u16"):
            d = bits(T) - (1 if signed(T) else 0)
            for E in (-(d - 1), -12, -8, -4):
                his = sorted({v >> 8 for v in range(tmin(T), tmax(T) + 1)})
                for h in (his if opts.get("full16") else rng.sample(his, 24)):
                    k = mk_exp2("K%d" % len(ks), T, E, slice_hi=h)
                    if k is not None:
                        ks.append(k)
    # 32-bit reps: slices of 256 consecutive inputs (high 24 bits fixed per kernel, low 8 bits symbolic)
    for T, Es in (("i32", (-30, -24, -16, -8, -1, 0)), ("u32", (-31, -16, -4, 0))):
        for E in Es:
            ks += exp2_slices32(len(ks), T, E, 2 if tier == "quick" else 24, rng)
    import mpmath as mp
    for cn in CONSTS:
        need = int(mp.floor(true_const(cn))).bit_length()
        for T in I8:
            d = bits(T) - (1 if signed(T) else 0)
            emin = max(need, 1) - d
            es = sorted({emin, emin + 1, -(d // 2), -1, 0})
            for E in (es if tier != "quick" else rng.sample(es, 2)):
                if E < emin or E > 0:
                    continue
                ks.append(mk_const("K%d" % len(ks), cn, T, E))
    return ks
