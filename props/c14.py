"""C14 - text output denotes the value (kernels shared with C13)."""
from . import c13

EXPLANATION = ("C14: on every successful to_chars path the written characters are parsed back symbolically (Horner "
               "evaluation over the bytes of the output buffer): optional '-', digits of the base, no leading zero, "
               "value equal to the magnitude -- the canonical numeral of exactly that value; to_chars_static prints "
               "the same numeral.  scaled_integer: the text is parsed as fixed or scientific decimal and compared with the "
               "exact value v*2^E (same sign, never above the true magnitude, less than one unit of the last printed digit "
               "below it).  Unit level: to_chars_positive prints a truncation floor(D/10^j)*10^(e+j) of the digit string D; "
               "descale never exceeds the true magnitude.")
BOUNDS = {"quick": "integers i8,u8,i16,u16 (base 10; bases 2,8,16,36; symbolic base for 8-bit) and to_chars_static; scaled_integer<i8,power<-3>>, <u8,power<1>> with every value and buffer length 0..12; scaled_integer<u64,power<0>> for the 256 values from 2^63 with an adequate buffer (well-formedness and sign); unit kernel to_chars_positive: digit strings of length 1..6, decimal exponent in [-99,99], buffer 0..12 (INT encoding); descale<int16_t,10> for (i8,2^12), (u8,2^9), (i8,2^-12)",
          "thorough": "adds i32..u64 integers, scaled exponents -8..8, 16-bit reps, 64-bit slices with the magnitude claims, to_chars_positive with 19 digits / buffer 26, more descale instantiations; per-kernel budget 900 s (kernels that exceed it are listed as not analysed).  Outside: 128-bit and wide reps, to_string / operator<< (heap, iostream), values of 32/64-bit scaled reps outside the sampled slices"}
OPTS = c13.OPTS


def kernels(opts):
    return c13.build(opts, "C14")
