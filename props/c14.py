"""C14 - text output denotes the value (kernels shared with C13)."""
from . import c13

EXPLANATION = ("C14: on every successful to_chars path the written characters are parsed back symbolically (Horner "
               "evaluation over the bytes of the output buffer): optional '-', digits of the base, no leading zero, "
               "value equal to the magnitude -- the canonical numeral of exactly that value; to_chars_static prints "
               "the same numeral.")
BOUNDS = c13.BOUNDS
OPTS = c13.OPTS


def kernels(opts):
    return c13.build(opts, "C14")
