"""C06 - overflow is detected exactly and handled as the overflow tag specifies.
(kernels are shared with C07, which checks the same code for undefined behaviour / internal errors)"""
import random
from .common import *
from vlib import ex as X
from vlib.check import outcome_claim

EXPLANATION = ("C06: tagged operations (operate<op,Tag>, convert<Tag,Dst>, overflow_integer operators) on every pairing "
               "of built-in operand types are executed symbolically in both compiler views (GCC intrinsic path, Clang "
               "portable path); each path's outcome (value / throw / trap) is proved to be the one the exact result "
               "and the tag prescribe: exact result in range -> that value; above -> max / overflow_error / abort; "
               "below -> lowest / overflow_error / abort.")
BOUNDS = {"quick": "ops {+,-,*,/,unary -,<<,convert} x operand type pairs over {i8,u8,i16,u16,i32,u32,i64,u64} (all mixed-sign pairs at 32/64 bits, seeded sample of the rest) x tags {saturated,throwing,trapping} x views {gcc,clang}; float/double sources for convert; overflow_integer operator forms for a sample",
          "thorough": "all pairs incl. i128/u128 (non-multiplicative ops) and long double sources"}
ASSUMPTIONS = ["divisor != 0 and shift count >= 0 (the statement's own restrictions)",
               "trapping: either overflow message is accepted (the statement only requires termination)"]

TAGS = {"sat": "cnl::saturated_overflow_tag", "thr": "cnl::_impl::throwing_overflow_tag", "trp": "cnl::trapping_overflow_tag"}
BIN = {"add": ("cnl::_impl::add_op", "+"), "sub": ("cnl::_impl::subtract_op", "-"), "mul": ("cnl::_impl::multiply_op", "*"),
       "div": ("cnl::_impl::divide_op", "/")}


def expected_cases(tag, e, lo, hi, applicable=True):
    inr = X.And(e >= lo, e <= hi)
    pos, neg = e > hi, e < lo
    cases = [("RET", inr, e)]
    if tag == "sat":
        cases += [("RET", pos, hi), ("RET", neg, lo)]
    elif tag == "thr":
        cases += [("THROW", X.Or(pos, neg), "overflow_error")]
    else:
        cases += [("TRAP", X.Or(pos, neg), "positive overflow"), ("TRAP", X.Or(pos, neg), "negative overflow")]
    return cases


def mk_claims(tag, exact_fn, res, prop):
    """prop: 'C06' -> outcome table on RET/THROW/TRAP paths ; 'C07' -> only 'defined behaviour' claims"""
    lo, hi = tmin(res), tmax(res)

    def claims(env, path):
        if prop == "C07":
            if path.kind == "TRAP" and path.payload not in ("positive overflow", "negative overflow"):
                return [("no-internal-error", False)]
            if path.kind == "UB":
                return [("defined-behaviour", False)]
            return []
        if path.kind == "UB":
            return []
        if path.kind == "TRAP" and path.payload not in ("positive overflow", "negative overflow"):
            return []  # internal errors are C07's subject
        e = exact_fn(env)
        return [("outcome", outcome_claim(env, path, expected_cases(tag, e, lo, hi)))]
    return claims


def mk_bin(name, opn, L, R, tag, prop, form="operate", views=("gcc", "clang")):
    opt, o = BIN[opn]
    RES = usual(promote(L), promote(R))
    T = TAGS[tag]
    if form == "operate":
        body = "    return cnl::_impl::operate<%s, %s>{}(a, b);" % (opt, T)
    else:
        body = ("    auto r = cnl::overflow_integer<%s, %s>{a} %s cnl::overflow_integer<%s, %s>{b};\n"
                "    return cnl::unwrap(r);") % (cpp(L), T, o, cpp(R), T)
    consts = {"same": "std::is_same_v<decltype(cnl::_impl::operate<%s, %s>{}(std::declval<%s>(), std::declval<%s>())), %s>" % (opt, T, cpp(L), cpp(R), cpp(RES))}

    def exact(env):
        a, b = env.a["a"], env.a["b"]
        return {"add": lambda: a + b, "sub": lambda: a - b, "mul": lambda: a * b, "div": lambda: X.tdiv(a, b)}[opn]()

    def pre(env):
        if opn == "div":
            return X.ne(env.a["b"], 0)
        return True
    big = opn in ("mul", "div") and max(bits(L), bits(R)) >= 16
    W = max(bits(L) + bits(R), bits(RES)) + 8 if opn == "mul" else max(bits(L), bits(R), bits(RES)) + 8
    return Kernel(name, [("a", L), ("b", R)], RES, body, consts=consts, mode="int" if big else "bv", W=W,
                  alt_modes=("bv",) if big else (), views=views, pre=pre, claims=mk_claims(tag, exact, RES, prop),
                  allow_ub=(prop == "C06"), desc="%s %s %s [%s] (%s)" % (L, o, R, tag, form),
                  tags={"op": opn, "L": L, "R": R, "tag": tag, "form": form, "res": RES, "mixed": signed(L) != signed(R),
                        "resu": not signed(RES), "ress": signed(RES), "Ls": signed(L), "Rs": signed(R),
                        "Rnarrow": bits(R) < bits(RES) or signed(R) != signed(RES)})


def mk_neg(name, L, tag, prop, views=("gcc", "clang")):
    RES = promote(L)
    body = "    return cnl::_impl::operate<cnl::_impl::minus_op, %s>{}(a);" % TAGS[tag]
    return Kernel(name, [("a", L)], RES, body, mode="bv", W=bits(RES) + 8, views=views,
                  claims=mk_claims(tag, lambda env: -env.a["a"], RES, prop), allow_ub=(prop == "C06"),
                  desc="-%s [%s]" % (L, tag), tags={"op": "neg", "L": L, "tag": tag, "res": RES, "Ls": signed(L)})


def mk_shl(name, L, R, tag, prop, views=("gcc", "clang")):
    RES = promote(L)
    body = "    return cnl::_impl::operate<cnl::_impl::shift_left_op, %s>{}(a, b);" % TAGS[tag]
    nb = bits(RES)

    def exact(env):
        # lhs * 2^rhs ; for rhs >= width+1 the magnitude only matters through its sign / zero-ness
        a, b = env.a["a"], env.a["b"]
        r = a * (1 << (nb + 1))
        for k in range(nb, -1, -1):
            r = X.ite(X.eq(b, k), a * (1 << k), r)
        return r

    def pre(env):
        return env.a["b"] >= 0
    return Kernel(name, [("a", L), ("b", R)], RES, body, mode="bv", W=2 * nb + 12, views=views, pre=pre,
                  claims=mk_claims(tag, exact, RES, prop), allow_ub=(prop == "C06"),
                  desc="%s << %s [%s]" % (L, R, tag), tags={"op": "shl", "L": L, "R": R, "tag": tag, "res": RES, "Ls": signed(L)})


def mk_conv(name, S, D, tag, prop, views=("gcc", "clang")):
    body = "    return cnl::convert<%s, %s>{}(a);" % (TAGS[tag], cpp(D))
    return Kernel(name, [("a", S)], D, body, mode="bv", W=max(bits(S), bits(D)) + 8, views=views,
                  claims=mk_claims(tag, lambda env: env.a["a"], D, prop), allow_ub=(prop == "C06"),
                  desc="convert %s -> %s [%s]" % (S, D, tag), tags={"op": "convert", "L": S, "D": D, "tag": tag, "res": D})


def mk_conv_fp(name, S, D, tag, prop, views=("gcc", "clang")):
    """floating source: exact value = trunc toward zero of the source (the conversion the language defines)"""
    import z3
    from vlib import symex
    body = "    return cnl::convert<%s, %s>{}(a);" % (TAGS[tag], cpp(D))
    lo, hi = tmin(D), tmax(D)
    nb = bits(D)

    def pre(env):
        a = env.a["a"]
        if isinstance(a, z3.ExprRef):
            return z3.Not(z3.Or(z3.fpIsNaN(a), z3.fpIsInf(a)))
        return True

    def claims(env, path):
        if prop == "C07":
            if path.kind == "TRAP" and path.payload not in ("positive overflow", "negative overflow"):
                return [("no-internal-error", False)]
            if path.kind == "UB":
                return [("defined-behaviour", False)]
            return []
        if path.kind == "UB" or (path.kind == "TRAP" and path.payload not in ("positive overflow", "negative overflow")):
            return []
        a = env.a["a"]
        wide = z3.FPSort(15, 113)
        aw = z3.fpFPToFP(z3.RNE(), a, wide)
        t = z3.fpRoundToIntegral(z3.RTZ(), aw)
        hi_f = z3.fpSignedToFP(z3.RNE(), z3.BitVecVal(hi, nb + 8), wide)
        lo_f = z3.fpSignedToFP(z3.RNE(), z3.BitVecVal(lo, nb + 8), wide)
        # the exact source value x: x >= max+1 / x <= lowest-1 must signal; lowest <= x <= max must not;
        # in the open unit intervals just outside the range (where truncation would still fit) either is accepted
        one = z3.FPVal(1.0, wide)
        must_pos = z3.fpGEQ(aw, z3.fpAdd(z3.RNE(), hi_f, one))
        must_neg = z3.fpLEQ(aw, z3.fpSub(z3.RNE(), lo_f, one))
        may_pos, may_neg = z3.fpGT(aw, hi_f), z3.fpLT(aw, lo_f)
        pos, neg = may_pos, may_neg
        inr = z3.And(z3.Not(must_pos), z3.Not(must_neg))
        if path.kind == "RET":
            r = env.ret_raw(path)
            if getattr(path, "concrete", False):
                rv = z3.BitVecVal(r, nb + 8)
            else:
                rv = env.dom.exact(r, signed(D), nb + 8)
            ex_bv = z3.fpToSBV(z3.RTZ(), t, z3.BitVecSort(nb + 8))
            alts = [z3.And(inr, rv == ex_bv)]
            if tag == "sat":
                alts += [z3.And(pos, rv == hi), z3.And(neg, rv == lo)]
            return [("outcome", z3.Or(*alts))]
        if path.kind == "THROW":
            return [("outcome", z3.Or(pos, neg) if tag == "thr" else False)]
        if path.kind == "TRAP":
            return [("outcome", z3.Or(pos, neg) if tag == "trp" else False)]
        return [("outcome", False)]
    return Kernel(name, [("a", S)], D, body, mode="bv", W=nb + 8, views=views, pre=pre, claims=claims,
                  allow_ub=(prop == "C06"), desc="convert %s -> %s [%s]" % (S, D, tag), timeout=60,
                  tags={"op": "convert", "L": S, "D": D, "tag": tag, "res": D, "fp": True})


def specs_for(opts, prop):
    tier = opts["tier"]
    rng = random.Random("c06/%s/%s" % (opts["seed"], tier))
    reps = I8 if tier == "quick" else I128
    core_pairs = [(a, b) for a in ("i32", "u32", "i64", "u64") for b in ("i32", "u32", "i64", "u64")]
    allp = [(a, b) for a in reps for b in reps]
    other = [p for p in allp if p not in core_pairs]
    nother = 10 if tier == "quick" else len(other)
    specs = []
    for tag in TAGS:
        pairs = core_pairs + rng.sample(other, min(nother, len(other)))
        if tier == "quick" and tag != "sat":
            pairs = rng.sample(core_pairs, 8) + rng.sample(other, 4)
        for (L, R) in pairs:
            for opn in BIN:
                if opn in ("mul", "div") and max(bits(L), bits(R)) > 64:
                    continue
                specs.append(("bin", opn, L, R, tag))
        for L in reps:
            specs.append(("neg", L, tag))
        for L in (reps if tag == "sat" or tier != "quick" else rng.sample(reps, 4)):
            for R in ("i32", "u8") if tier == "quick" else ("i32", "u8", "i64", "u32"):
                if bits(L) <= 64:
                    specs.append(("shl", L, R, tag))
        cp = [(s, d) for s in reps for d in reps if s != d]
        for (S, D) in (cp if tag == "sat" and tier != "quick" else rng.sample(cp, 14 if tier == "quick" else 40)):
            specs.append(("conv", S, D, tag))
        for S in ("f32", "f64") + (("f80",) if tier != "quick" else ()):
            for D in (("i8", "u16", "i32", "u32", "i64") if tier != "quick" else rng.sample(["i8", "u8", "i16", "u16", "i32", "u32", "i64", "u64"], 2)):
                specs.append(("convfp", S, D, tag))
        for (L, R) in (("i32", "i32"), ("i32", "u32"), ("u8", "i16"), ("i64", "u64")):
            for opn in ("add", "sub", "mul"):
                specs.append(("bin", opn, L, R, tag, "overflow_integer"))
    return specs


def build(specs, prop):
    ks = []
    for s in specs:
        n = "K%d" % len(ks)
        if s[0] == "bin":
            ks.append(mk_bin(n, s[1], s[2], s[3], s[4], prop, form=s[5] if len(s) > 5 else "operate"))
        elif s[0] == "neg":
            ks.append(mk_neg(n, s[1], s[2], prop))
        elif s[0] == "shl":
            ks.append(mk_shl(n, s[1], s[2], s[3], prop))
        elif s[0] == "conv":
            ks.append(mk_conv(n, s[1], s[2], s[3], prop))
        elif s[0] == "convfp":
            ks.append(mk_conv_fp(n, s[1], s[2], s[3], prop))
    return ks


def kernels(opts):
    return build(specs_for(opts, "C06"), "C06")
