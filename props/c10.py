"""C10 - wide_integer behaves as an N-bit two's-complement integer for any N."""
import random
import z3
from .common import *
from vlib import ex as X
from vlib.dom import IV

EXPLANATION = ("C10: wide_integer<D, Narrowest> operations are executed symbolically on fully symbolic limb arrays (the "
               "real uintwide_t loops, unrolled path-wise: limb counts are concrete) and the result limbs are proved equal, "
               "limb by limb, to the same operation on the W-bit two's-complement integer assembled from the input limbs "
               "(bit-vector oracle for linear operations, integer (QF_NIA) oracle for multiplication / division).")
BOUNDS = {"quick": "4-limb multiplication of wide_integer<200, 64-bit limbs>; instantiations (digits, limb): (130,u8) 136 bit / 17 limbs, (130,u16) 144 bit / 9 limbs, (130,u32) 160 bit / 5 limbs, (130,u64) 192 bit / 3 limbs (with __int128 enabled, as in the test build, narrower wide_integers are single built-in integers), signed and unsigned; ops +,-,unary -,~,&,|,^,<<n,>>n (symbolic n in [0,W)), six comparisons, ++/--, conversion from/to 64-bit built-ins; multiplication for <= 4 limbs (INT encoding); decimal text, floating-point conversions and division beyond 2 limbs are outside",
          "thorough": "adds (200,u64) 256 bit and division for 2-3 limbs"}
OPTS = {"quick": {"kernel_budget": 300}, "thorough": {"kernel_budget": 2400}}

INST = [(130, "u8"), (130, "u16"), (130, "u32"), (130, "u64")]


def limbs_of(D, L, sgn):
    lw = bits(L)
    return (D + (1 if sgn else 0) + lw - 1) // lw


def wt(D, L, sgn):
    nar = cpp(L) if not sgn else cpp("i" + L[1:])
    return "cnl::wide_integer<%d, %s>" % (D, nar)


PRE = ("    using W = %s;\n    using R = cnl::_impl::rep_of_t<W>;\n"
       "    static_assert(sizeof(R) == %d, \"unexpected limb layout\");\n")
LOAD = "    R r%s{}; for (int i = 0; i < %d; ++i) { r%s.representation()[static_cast<std::size_t>(i)] = %s[i]; }\n"
STORE = "    for (int i = 0; i < %d; ++i) { out[i] = rr.crepresentation()[static_cast<std::size_t>(i)]; }\n    return 0;"


def cat(env, name, concrete, lw):
    if concrete:
        v = 0
        for i, x in enumerate(env.a[name]):
            v |= (x & ((1 << lw) - 1)) << (lw * i)
        return v
    raws = env.raw[name]
    es = [env.dom.E(r) for r in raws]
    return z3.Concat(*reversed(es)) if len(es) > 1 else es[0]


def cat_out(env, path, lw, n):
    o = env.out(path, "out")
    if getattr(path, "concrete", False):
        v = 0
        for i, x in enumerate(o):
            v |= (x & ((1 << lw) - 1)) << (lw * i)
        return v
    es = [z3.Extract(lw - 1, 0, x) if x.size() > lw else x for x in o]
    return z3.Concat(*reversed(es)) if len(es) > 1 else es[0]


def sgn_py(v, W):
    return v - (1 << W) if v >> (W - 1) else v


BIN = {"add": "+", "sub": "-", "and": "&", "or": "|", "xor": "^"}


def mk_bin(name, D, L, sgn, opn):
    n = limbs_of(D, L, sgn)
    lw = bits(L)
    W = n * lw
    body = (PRE % (wt(D, L, sgn), n * lw // 8) + LOAD % ("a", n, "a", "a") + LOAD % ("b", n, "b", "b")
            + "    auto r = cnl::_impl::from_rep<W>(ra) %s cnl::_impl::from_rep<W>(rb);\n    R rr = cnl::_impl::to_rep(r);\n" % BIN[opn] + STORE % n)
    args = [Arg("a", L, "arr", n=n), Arg("b", L, "arr", n=n), Arg("out", L, "arr", n=n, out=True, init="uninit")]

    def claims(env, path):
        if path.kind != "RET":
            return [("unexpected-outcome", False)]
        c = getattr(path, "concrete", False)
        A, B = cat(env, "a", c, lw), cat(env, "b", c, lw)
        R = cat_out(env, path, lw, n)
        if c:
            m = (1 << W) - 1
            exp = {"add": (A + B) & m, "sub": (A - B) & m, "and": A & B, "or": A | B, "xor": A ^ B}[opn]
            return [("two's-complement-result", R == exp)]
        exp = {"add": A + B, "sub": A - B, "and": A & B, "or": A | B, "xor": A ^ B}[opn]
        return [("two's-complement-result", R == exp)]
    return Kernel(name, args, "i32", body, mode="bv", W=lw + 8, claims=claims, unwind=4 * n + 16, max_paths=20000, timeout=120,
                  desc="wide_integer<%d,%s%s> %s (%d limbs)" % (D, "s" if sgn else "u", L[1:], BIN[opn], n),
                  tags={"op": opn, "D": D, "L": L, "sgn": sgn, "limbs": n})


def mk_un(name, D, L, sgn, opn):
    n = limbs_of(D, L, sgn)
    lw = bits(L)
    W = n * lw
    expr = {"neg": "-x", "not": "~x", "preinc": "++x", "predec": "--x"}[opn]
    body = (PRE % (wt(D, L, sgn), n * lw // 8) + LOAD % ("a", n, "a", "a")
            + "    auto x = cnl::_impl::from_rep<W>(ra);\n    auto r = %s;\n    R rr = cnl::_impl::to_rep(r);\n" % expr + STORE % n)
    args = [Arg("a", L, "arr", n=n), Arg("out", L, "arr", n=n, out=True, init="uninit")]

    def claims(env, path):
        if path.kind != "RET":
            return [("unexpected-outcome", False)]
        c = getattr(path, "concrete", False)
        A = cat(env, "a", c, lw)
        R = cat_out(env, path, lw, n)
        m = (1 << W) - 1
        if c:
            exp = {"neg": (-A) & m, "not": (~A) & m, "preinc": (A + 1) & m, "predec": (A - 1) & m}[opn]
        else:
            exp = {"neg": -A, "not": ~A, "preinc": A + 1, "predec": A - 1}[opn]
        return [("two's-complement-result", R == exp)]
    return Kernel(name, args, "i32", body, mode="bv", W=lw + 8, claims=claims, unwind=4 * n + 16, max_paths=20000, timeout=120,
                  desc="%s wide_integer<%d,%s%s> (%d limbs)" % (opn, D, "s" if sgn else "u", L[1:], n),
                  tags={"op": opn, "D": D, "L": L, "sgn": sgn, "limbs": n})


CMP = {"eq": "==", "ne": "!=", "lt": "<", "le": "<=", "gt": ">", "ge": ">="}


def mk_cmp(name, D, L, sgn, opn):
    n = limbs_of(D, L, sgn)
    lw = bits(L)
    W = n * lw
    body = (PRE % (wt(D, L, sgn), n * lw // 8) + LOAD % ("a", n, "a", "a") + LOAD % ("b", n, "b", "b")
            + "    return cnl::_impl::from_rep<W>(ra) %s cnl::_impl::from_rep<W>(rb);" % CMP[opn])
    args = [Arg("a", L, "arr", n=n), Arg("b", L, "arr", n=n)]

    def claims(env, path):
        if path.kind != "RET":
            return [("unexpected-outcome", False)]
        c = getattr(path, "concrete", False)
        A, B = cat(env, "a", c, lw), cat(env, "b", c, lw)
        r = env.ret(path)
        if c:
            if sgn:
                A, B = sgn_py(A, W), sgn_py(B, W)
            exp = {"eq": A == B, "ne": A != B, "lt": A < B, "le": A <= B, "gt": A > B, "ge": A >= B}[opn]
            return [("order-of-values", r == exp)]
        if sgn:
            exp = {"eq": A == B, "ne": A != B, "lt": A < B, "le": A <= B, "gt": A > B, "ge": A >= B}[opn]
        else:
            exp = {"eq": A == B, "ne": A != B, "lt": z3.ULT(A, B), "le": z3.ULE(A, B), "gt": z3.UGT(A, B), "ge": z3.UGE(A, B)}[opn]
        return [("order-of-values", X.Iff(r, exp))]
    return Kernel(name, args, "bool", body, mode="bv", W=lw + 8, claims=claims, unwind=4 * n + 16, max_paths=20000, timeout=120,
                  desc="wide_integer<%d,%s%s> %s (%d limbs)" % (D, "s" if sgn else "u", L[1:], CMP[opn], n),
                  tags={"op": opn, "D": D, "L": L, "sgn": sgn, "limbs": n})


def mk_shift(name, D, L, sgn, left):
    n = limbs_of(D, L, sgn)
    lw = bits(L)
    W = n * lw
    body = (PRE % (wt(D, L, sgn), n * lw // 8) + LOAD % ("a", n, "a", "a")
            + "    auto r = cnl::_impl::from_rep<W>(ra) %s static_cast<int>(s);\n    R rr = cnl::_impl::to_rep(r);\n" % ("<<" if left else ">>") + STORE % n)
    args = [Arg("a", L, "arr", n=n), ("s", "u8"), Arg("out", L, "arr", n=n, out=True, init="uninit")]

    def pre(env):
        return env.a["s"] < W

    def claims(env, path):
        if path.kind != "RET":
            return [("unexpected-outcome", False)]
        c = getattr(path, "concrete", False)
        A = cat(env, "a", c, lw)
        R = cat_out(env, path, lw, n)
        if c:
            s = env.a["s"]
            m = (1 << W) - 1
            if left:
                exp = (A << s) & m
            else:
                exp = ((sgn_py(A, W) if sgn else A) >> s) & m
            return [("shift-result", R == exp)]
        s = z3.ZeroExt(W - 8, env.dom.E(env.raw["s"]))
        exp = (A << s) if left else ((A >> s) if sgn else z3.LShR(A, s))
        return [("shift-result", R == exp)]
    return Kernel(name, args, "i32", body, mode="bv", W=lw + 8, pre=pre, claims=claims, unwind=4 * n + 16, max_paths=20000,
                  timeout=120, desc="wide_integer<%d,%s%s> %s n (%d limbs)" % (D, "s" if sgn else "u", L[1:], "<<" if left else ">>", n),
                  tags={"op": "shl" if left else "shr", "D": D, "L": L, "sgn": sgn, "limbs": n})


def mk_conv(name, D, L, sgn, T, direction):
    n = limbs_of(D, L, sgn)
    lw = bits(L)
    W = n * lw
    if direction == "from":
        body = (PRE % (wt(D, L, sgn), n * lw // 8) + "    W x{v};\n    R rr = cnl::_impl::to_rep(x);\n" + STORE % n)
        args = [("v", T), Arg("out", L, "arr", n=n, out=True, init="uninit")]

        def claims(env, path):
            if path.kind != "RET":
                return [("unexpected-outcome", False)]
            c = getattr(path, "concrete", False)
            R = cat_out(env, path, lw, n)
            if c:
                return [("value-preserved", R == env.a["v"] & ((1 << W) - 1))]
            e = env.dom.E(env.raw["v"])
            exp = z3.SignExt(W - bits(T), e) if signed(T) else z3.ZeroExt(W - bits(T), e)
            return [("value-preserved", R == exp)]
        return Kernel(name, args, "i32", body, mode="bv", W=max(bits(T), lw) + 8, claims=claims, unwind=4 * n + 16, timeout=120,
                      desc="wide_integer<%d,%s%s>{%s}" % (D, "s" if sgn else "u", L[1:], T), tags={"op": "from", "D": D, "L": L, "sgn": sgn})
    body = (PRE % (wt(D, L, sgn), n * lw // 8) + LOAD % ("a", n, "a", "a")
            + "    return static_cast<%s>(cnl::_impl::from_rep<W>(ra));" % cpp(T))
    args = [Arg("a", L, "arr", n=n)]

    def claims(env, path):
        if path.kind != "RET":
            return [("unexpected-outcome", False)]
        c = getattr(path, "concrete", False)
        A = cat(env, "a", c, lw)
        if c:
            v = env.ret(path)
            return [("low-bits", (v & ((1 << bits(T)) - 1)) == (A & ((1 << bits(T)) - 1)))]
        r = env.dom.E(env.ret_raw(path))
        return [("low-bits", r == z3.Extract(bits(T) - 1, 0, A))]
    return Kernel(name, args, T, body, mode="bv", W=max(bits(T), lw) + 8, claims=claims, unwind=4 * n + 16, timeout=120,
                  desc="static_cast<%s>(wide_integer<%d,%s%s>)" % (T, D, "s" if sgn else "u", L[1:]), tags={"op": "to", "D": D, "L": L, "sgn": sgn})


opts_n = [160]


def mk_mul(name, D, L, sgn, opn="mul", shape=None, mode="int", solver_timeout=None):
    """shape (division only): (significant limbs of the dividend, of the divisor) - restricts the operands to one
    size class so that the path-wise exploration of Knuth's algorithm D stays small"""
    n = limbs_of(D, L, sgn)
    lw = bits(L)
    W = n * lw
    o = {"mul": "*", "div": "/", "rem": "%"}[opn]
    na, nb_ = (n, n) if shape is None else shape
    body = (PRE % (wt(D, L, sgn), n * lw // 8) + LOAD % ("a", na, "a", "a") + LOAD % ("b", nb_, "b", "b")
            + "    auto r = cnl::_impl::from_rep<W>(ra) %s cnl::_impl::from_rep<W>(rb);\n    R rr = cnl::_impl::to_rep(r);\n" % o + STORE % n)
    args = [Arg("a", L, "arr", n=na), Arg("b", L, "arr", n=nb_), Arg("out", L, "arr", n=n, out=True, init="uninit")]

    def val(xs):
        v = 0
        for i, x in enumerate(xs):
            v = v + x * (1 << (lw * i))
        return v

    def pre(env):
        if opn == "mul":
            return True
        c = [X.ne(val(env.a["b"]), 0)]
        if shape is not None:
            # the limbs above the shape are concrete zeros in the kernel; the top listed limb is non-zero
            c.append(X.ne(env.a["a"][shape[0] - 1], 0))
            c.append(X.ne(env.a["b"][shape[1] - 1], 0))
        return X.And(*c)

    def claims(env, path):
        if path.kind != "RET":
            return [("unexpected-outcome", False)]
        A, B = val(env.a["a"]), val(env.a["b"])
        R = val(env.out(path, "out"))
        M = 1 << W
        if sgn and opn != "mul":
            As = X.ite(A >= M // 2, A - M, A)
            Bs = X.ite(B >= M // 2, B - M, B)
            q = X.tdiv(As, Bs) if opn == "div" else X.trem(As, Bs)
            exp = X.ite(q < 0, q + M, q)
            return [("two's-complement-result", X.eq(R, exp))]
        if opn == "mul":
            exp = (A * B) % M
        elif opn == "div":
            # R == floor(A / B)  <=>  0 <= A - R*B < B   (no division in the oracle)
            rem = A - R * B
            return [("two's-complement-result", X.And(rem >= 0, rem < B))]
        else:
            # R == A mod B  <=>  0 <= R < B and B divides A - R: checked through the quotient bound below
            if isinstance(A, int):
                return [("two's-complement-result", R == A % B)]
            import z3
            q = z3.Int("q_oracle")
            return [("two's-complement-result", X.And(R >= 0, R < B, X.eq(R, A % B)))]
        return [("two's-complement-result", X.eq(R, exp))]
    gs = None
    if shape is not None:
        def gs(rng):
            top = (1 << lw) - 1
            S = [0, 1, 2, 3, top, top - 1, 1 << (lw - 1), (1 << (lw - 1)) - 1, (1 << (lw - 1)) + 1, 1 << (lw // 2), (1 << (lw // 2)) - 1, 0x55 * (top // 255), 0xAA * (top // 255)]
            seeds = []
            def mk(us, vs):
                dct = {}
                for i in range(shape[0]):
                    dct["a_%d" % i] = us[i]
                for i in range(shape[1]):
                    dct["b_%d" % i] = vs[i]
                if dct["a_%d" % (shape[0] - 1)] == 0:
                    dct["a_%d" % (shape[0] - 1)] = 1
                if dct["b_%d" % (shape[1] - 1)] == 0:
                    dct["b_%d" % (shape[1] - 1)] = 1
                return dct
            # the classic add-back provokers: dividend 2^(kL-1), divisor 2^(jL-1)+1 and neighbours
            for du in (0, 1, top):
                for dv in (0, 1, 2, top):
                    us = [du] * n
                    us[shape[0] - 1] = 1 << (lw - 1)
                    vs = [dv] * n
                    vs[shape[1] - 1] = 1 << (lw - 1)
                    seeds.append(mk(us, vs))
                    vs2 = list(vs)
                    vs2[shape[1] - 1] = (1 << (lw - 1)) + 1
                    seeds.append(mk(us, vs2))
            for _ in range(int(opts_n[0])):
                us = [rng.choice(S) if rng.random() < 0.7 else rng.randint(0, top) for _ in range(n)]
                vs = [rng.choice(S) if rng.random() < 0.7 else rng.randint(0, top) for _ in range(n)]
                seeds.append(mk(us, vs))
            return seeds
    k_ = Kernel(name, args, "i32", body, mode=mode, W=None if mode == "int" else (lw * (shape[0] + 1) + 8), pre=pre, claims=claims,
                  unwind=6 * n + 24, max_paths=40000, timeout=(solver_timeout or 240) if shape is None else 3,
                  guided_seeds=gs,
                  desc="wide_integer<%d,%s%s> %s (%d limbs)%s" % (D, "s" if sgn else "u", L[1:], o, n, (" operands with %d/%d significant limbs" % shape) if shape else ""),
                  tags={"op": opn, "D": D, "L": L, "sgn": sgn, "limbs": n})
    if shape is not None and lw == 8:
        def rnd(rng):
            dct = {}
            for i in range(shape[0]):
                dct["a_%d" % i] = rng.randint(0, 255)
            for i in range(shape[1]):
                dct["b_%d" % i] = rng.randint(0, 255)
            if dct["a_%d" % (shape[0] - 1)] == 0:
                dct["a_%d" % (shape[0] - 1)] = 1
            if dct["b_%d" % (shape[1] - 1)] == 0:
                dct["b_%d" % (shape[1] - 1)] = 1
            return dct
        k_.guided_random = (rnd, 4000)
    return k_


def mk_arith128(name, D, N, opn):
    """layout-independent: operands are built from 64-bit halves through wide_integer's own operators, results are read
    back through shifts and conversions - so the storage chosen for (D digits + sign) is itself under test"""
    T = "cnl::wide_integer<%d, %s>" % (D, cpp(N))
    o = {"add": "+", "sub": "-"}[opn]
    body = ("    using W = %s;\n"
            "    W a = (W{ah} << 64) + W{al};\n    W b = (W{bh} << 64) + W{bl};\n    W r = a %s b;\n"
            "    out[0] = static_cast<std::uint64_t>(r); out[1] = static_cast<std::uint64_t>(r >> 64);\n"
            "    out[2] = static_cast<std::uint64_t>(static_cast<std::int64_t>(r >> %d)); out[3] = (r < W{0}) ? 1 : 0; out[4] = (a < b) ? 1 : 0;\n"
            "    return 0;") % (T, o, D)
    args = [("ah", "i64"), ("al", "u64"), ("bh", "i64"), ("bl", "u64"), Arg("out", "u64", "arr", n=5, out=True, init="uninit")]
    WW = 200

    def claims(env, path):
        if path.kind != "RET":
            return [("unexpected-outcome", False)]
        c = getattr(path, "concrete", False)
        o_ = env.out(path, "out")
        if c:
            A = env.a["ah"] * (1 << 64) + env.a["al"]
            B = env.a["bh"] * (1 << 64) + env.a["bl"]
            R = A + B if opn == "add" else A - B
            exp = [R & ((1 << 64) - 1), (R >> 64) & ((1 << 64) - 1), (R >> D) & ((1 << 64) - 1), 1 if R < 0 else 0, 1 if A < B else 0]
            return [("value-of-%d-digit-result" % D, all((x & ((1 << 64) - 1)) == e for x, e in zip(o_, exp)))]
        ah, al, bh, bl = (env.dom.E(env.raw[k_]) for k_ in ("ah", "al", "bh", "bl"))
        A = z3.SignExt(WW - 64, ah) * z3.BitVecVal(1 << 64, WW) + z3.ZeroExt(WW - 64, al)
        B = z3.SignExt(WW - 64, bh) * z3.BitVecVal(1 << 64, WW) + z3.ZeroExt(WW - 64, bl)
        R = A + B if opn == "add" else A - B
        lim = [z3.Extract(63, 0, x) if x.size() > 64 else x for x in o_]
        return [("low-64", lim[0] == z3.Extract(63, 0, R)), ("bits-64-127", lim[1] == z3.Extract(127, 64, R)),
                ("bits-above-%d" % D, lim[2] == z3.Extract(63, 0, R >> D)),
                ("sign-test", lim[3] == z3.If(R < 0, z3.BitVecVal(1, 64), z3.BitVecVal(0, 64))),
                ("order", lim[4] == z3.If(A < B, z3.BitVecVal(1, 64), z3.BitVecVal(0, 64)))]
    return Kernel(name, args, "i32", body, mode="bv", W=72, claims=claims, unwind=80, max_paths=20000, timeout=120,
                  desc="wide_integer<%d,%s>: (hi<<64)+lo %s (hi<<64)+lo, read back by shifts" % (D, N, o),
                  tags={"op": "arith128-" + opn, "D": D, "N": N})


def kernels(opts):
    tier = opts["tier"]
    rng = random.Random("c10/%s/%s" % (opts["seed"], tier))
    inst = INST + ([(200, "u64")] if tier != "quick" else [])
    ks = []
    for (D, L) in inst:
        for sgn in (False, True):
            ops = list(BIN)
            for opn in (ops if tier != "quick" else rng.sample(ops, 3)):
                ks.append(mk_bin("K%d" % len(ks), D, L, sgn, opn))
            for opn in (("neg", "preinc", "predec") if tier != "quick" else rng.sample(["neg", "preinc", "predec"], 2)):
                ks.append(mk_un("K%d" % len(ks), D, L, sgn, opn))
            for opn in (list(CMP) if tier != "quick" else rng.sample(list(CMP), 2)):
                ks.append(mk_cmp("K%d" % len(ks), D, L, sgn, opn))
            ks.append(mk_shift("K%d" % len(ks), D, L, sgn, True))
            ks.append(mk_shift("K%d" % len(ks), D, L, sgn, False))
            ks.append(mk_conv("K%d" % len(ks), D, L, sgn, rng.choice(["i64", "u32", "i16", "u64"]), "from"))
            ks.append(mk_conv("K%d" % len(ks), D, L, sgn, rng.choice(["i64", "u32", "u8", "u64"]), "to"))
            if limbs_of(D, L, sgn) <= (4 if tier == "quick" else 5):
                ks.append(mk_mul("K%d" % len(ks), D, L, sgn, "mul"))
            if L == "u8" and not sgn:
                # 8-bit limbs make Knuth's rare branches (quotient-digit correction, add-back: divisors of >= 3 limbs)
                # common enough to be met: trace-guided (concrete trace discovery + per-trace symbolic execution),
                # operands restricted to a few significant limbs.  The per-path division obligations are mostly
                # beyond the solvers (reported as undecided); what this stage adds is the replay of every discovery
                # input whose IR-level result violates the oracle.
                ks.append(mk_mul("K%d" % len(ks), D, L, sgn, "div", shape=(5, 3), mode="int"))
                if tier != "quick":
                    ks.append(mk_mul("K%d" % len(ks), D, L, sgn, "rem", shape=(5, 3), mode="int"))
                    ks.append(mk_mul("K%d" % len(ks), D, L, sgn, "div", shape=(8, 4), mode="int"))
                    ks.append(mk_mul("K%d" % len(ks), D, L, sgn, "div", shape=(4, 2), mode="int"))
            if limbs_of(D, L, sgn) <= 3 and not sgn:
                # multi-limb divisors take Knuth's algorithm D (single-limb divisors use a separate short routine)
                ks.append(mk_mul("K%d" % len(ks), D, L, sgn, "div", shape=(3, 2)))
                if tier != "quick":
                    ks.append(mk_mul("K%d" % len(ks), D, L, sgn, "div", shape=(3, 3)))
                    ks.append(mk_mul("K%d" % len(ks), D, L, sgn, "div", shape=(2, 2)))
                    ks.append(mk_mul("K%d" % len(ks), D, L, sgn, "rem", shape=(3, 2)))
                    ks.append(mk_mul("K%d" % len(ks), D, L, sgn, "div", shape=(3, 1)))
    if tier == "quick":
        # the 4-limb multiplication routine (its own specialisation in uintwide_t); the thorough tier runs the whole
        # (200, u64) instantiation
        for sgn in (False, True):
            ks.append(mk_mul("K%d" % len(ks), 200, "u64", sgn, "mul", solver_timeout=50))
    # digit counts that are exact multiples of the limb width (the sign bit needs one more limb)
    for (N, opn) in ((("i16", "add"), ("i32", "add"), ("i32", "sub"), ("i64", "add"), ("i64", "sub")) if tier != "quick" else (("i32", "add"), ("i64", "sub"))):
        ks.append(mk_arith128("K%d" % len(ks), 128, N, opn))
    return ks
