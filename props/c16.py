"""C16 - fraction arithmetic, ordering, reduction and hashing follow the rationals."""
import random
from .common import *
from vlib import ex as X

EXPLANATION = ("C16: fraction<T> operators are executed symbolically on symbolic numerators/denominators (d != 0, cross "
               "products fit the promoted type): + - * / and unary - are proved to denote the exact rational result, the "
               "six comparisons the order of the rational values with the signs of both denominators taken into account; "
               "conversion to floating point equals numerator/denominator; reduce/canonical (libstdc++ std::gcd loop "
               "unrolled path-wise) preserve the value, give lowest terms and a positive denominator; std::hash is a "
               "function of the canonical form.")
BOUNDS = {"quick": "T in {i8,i16,i32} for arithmetic/ordering (INT encoding, i64 thorough); reduce/canonical/hash for T = i8 (all paths of the gcd loop, unwinding obligation)",
          "thorough": "adds i64 arithmetic and i16 reduce"}
EXTRA_INCLUDES = ("functional",)

OUT2 = Arg("out", "i64", "arr", n=2, out=True, init="uninit")


def fr(T, n, d):
    return "cnl::fraction<%s>(%s, %s)" % (cpp(T), n, d)


def fits(v, t):
    return X.And(v >= tmin(t), v <= tmax(t))


def mk_arith(name, T, opn):
    P = promote(T)
    o = {"add": "+", "sub": "-", "mul": "*", "div": "/"}[opn]
    body = ("    auto r = %s %s %s;\n    out[0] = r.numerator; out[1] = r.denominator;\n    return 0;"
            % (fr(T, "n1", "d1"), o, fr(T, "n2", "d2")))

    def ND(env):
        n1, d1, n2, d2 = env.a["n1"], env.a["d1"], env.a["n2"], env.a["d2"]
        if opn == "add":
            return n1 * d2 + n2 * d1, d1 * d2, [n1 * d2, n2 * d1, d1 * d2]
        if opn == "sub":
            return n1 * d2 - n2 * d1, d1 * d2, [n1 * d2, n2 * d1, d1 * d2]
        if opn == "mul":
            return n1 * n2, d1 * d2, [n1 * n2, d1 * d2]
        return n1 * d2, d1 * n2, [n1 * d2, d1 * n2]

    def pre(env):
        N, D, prods = ND(env)
        c = [X.ne(env.a["d1"], 0), X.ne(env.a["d2"], 0), fits(N, P), fits(D, P)] + [fits(p, P) for p in prods]
        if opn == "div":
            c.append(X.ne(env.a["n2"], 0))
        return X.And(*c)

    def claims(env, path):
        if path.kind != "RET":
            return [("unexpected-outcome", False)]
        N, D, _ = ND(env)
        rn, rd = env.out(path, "out")
        # (N, D) itself, or any other representation of the same rational
        return [("denominator-nonzero", X.ne(rd, 0)),
                ("rational-value", X.Or(X.And(X.eq(rn, N), X.eq(rd, D)), X.eq(rn * D, N * rd)))]
    return Kernel(name, [("n1", T), ("d1", T), ("n2", T), ("d2", T), OUT2], "i32", body, mode="int", alt_modes=("bv",),
                  W=4 * bits(P) + 8, pre=pre, claims=claims, desc="fraction<%s> %s" % (T, o), tags={"op": opn, "T": T})


def mk_neg(name, T):
    body = "    auto r = -%s;\n    out[0] = r.numerator; out[1] = r.denominator;\n    return 0;" % fr(T, "n1", "d1")
    P = promote(T)

    def pre(env):
        return X.And(X.ne(env.a["d1"], 0), fits(-env.a["n1"], P))

    def claims(env, path):
        if path.kind != "RET":
            return [("unexpected-outcome", False)]
        rn, rd = env.out(path, "out")
        return [("denominator-nonzero", X.ne(rd, 0)), ("rational-value", X.eq(rn * env.a["d1"], -env.a["n1"] * rd))]
    return Kernel(name, [("n1", T), ("d1", T), OUT2], "i32", body, mode="int", alt_modes=("bv",), W=2 * bits(P) + 8,
                  pre=pre, claims=claims, desc="-fraction<%s>" % T, tags={"op": "neg", "T": T})


CMP = {"eq": "==", "ne": "!=", "lt": "<", "le": "<=", "gt": ">", "ge": ">="}


def mk_cmp(name, T, opn):
    P = promote(T)
    body = "    return %s %s %s;" % (fr(T, "n1", "d1"), CMP[opn], fr(T, "n2", "d2"))

    def pre(env):
        n1, d1, n2, d2 = env.a["n1"], env.a["d1"], env.a["n2"], env.a["d2"]
        return X.And(X.ne(d1, 0), X.ne(d2, 0), fits(n1 * d2, P), fits(n2 * d1, P))

    def claims(env, path):
        if path.kind != "RET":
            return [("unexpected-outcome", False)]
        n1, d1, n2, d2 = env.a["n1"], env.a["d1"], env.a["n2"], env.a["d2"]
        # order of n1/d1 and n2/d2: sign of (n1*d2 - n2*d1) corrected by the sign of d1*d2
        diff = n1 * d2 - n2 * d1
        flip = X.Or(X.And(d1 < 0, d2 > 0), X.And(d1 > 0, d2 < 0))
        lt = X.ite(flip, diff > 0, diff < 0)
        gt = X.ite(flip, diff < 0, diff > 0)
        eq = X.eq(diff, 0)
        exp = {"eq": eq, "ne": X.Not(eq), "lt": lt, "le": X.Or(lt, eq), "gt": gt, "ge": X.Or(gt, eq)}[opn]
        return [("rational-order", X.Iff(env.ret(path), exp))]
    return Kernel(name, [("n1", T), ("d1", T), ("n2", T), ("d2", T)], "bool", body, mode="int", alt_modes=("bv",),
                  W=2 * bits(P) + 8, pre=pre, claims=claims, desc="fraction<%s> %s" % (T, CMP[opn]),
                  tags={"op": opn, "T": T, "family": "cmp"})


def mk_tofloat(name, T, F):
    import z3
    from vlib import symex
    body = "    return static_cast<%s>(%s);" % (cpp(F), fr(T, "n1", "d1"))

    def pre(env):
        return X.ne(env.a["d1"], 0)

    def claims(env, path):
        if path.kind != "RET":
            return [("unexpected-outcome", False)]
        srt = symex.fpsort(core.FPNAME[F])
        n, d = env.raw["n1"], env.raw["d1"]
        if getattr(path, "concrete", False):
            nb, db = z3.BitVecVal(env.a["n1"], bits(T)), z3.BitVecVal(env.a["d1"], bits(T))
        else:
            nb, db = env.dom.E(n), env.dom.E(d)
        q = z3.fpDiv(z3.RNE(), z3.fpSignedToFP(z3.RNE(), nb, srt), z3.fpSignedToFP(z3.RNE(), db, srt))
        r = env.ret(path)
        return [("numerator/denominator", z3.Or(r == q, z3.And(z3.fpIsNaN(r), z3.fpIsNaN(q))))]
    return Kernel(name, [("n1", T), ("d1", T)], F, body, mode="bv", W=bits(T) + 8, pre=pre, claims=claims,
                  desc="(%s) fraction<%s>" % (F, T), tags={"op": "tofloat", "T": T})


def gcd_oracle(n, d, nb):
    """greatest k in [1, 2^(nb-1)) dividing both (ladder; n, d not both zero since d != 0)"""
    g = 1
    for k in range(2, 1 << (nb - 1)):
        g = X.ite(X.And(X.eq(X.trem(n, k), 0), X.eq(X.trem(d, k), 0)), k, g)
    return g


OUT2S = Arg("out", "i16", "arr", n=2, out=True, init="uninit")


def mk_reduce(name, T, fn):
    nb = bits(T)
    if fn == "hash":
        body = "    return static_cast<std::uint64_t>(std::hash<cnl::fraction<%s>>{}(%s));" % (cpp(T), fr(T, "n1", "d1"))
        ret, args = "u64", [("n1", T), ("d1", T)]
    else:
        body = ("    auto r = cnl::_impl::%s(%s);\n    out[0] = r.numerator; out[1] = r.denominator;\n    return 0;"
                % (fn, fr(T, "n1", "d1")))
        ret, args = "i32", [("n1", T), ("d1", T), OUT2S]

    def pre(env):
        n, d = env.a["n1"], env.a["d1"]
        return X.And(X.ne(d, 0), n > tmin(T), d > tmin(T))

    def claims(env, path):
        if path.kind != "RET":
            return [("unexpected-outcome", False)]
        n, d = env.a["n1"], env.a["d1"]
        g = gcd_oracle(n, d, nb)
        qn, qd = X.tdiv(n, g), X.tdiv(d, g)          # lowest terms, signs as given
        cn, cd = X.ite(d < 0, -qn, qn), X.ite(d < 0, -qd, qd)  # ... with a positive denominator
        if fn == "hash":
            import z3
            if getattr(path, "concrete", False):
                h = env.ret(path)
                un, ud = cn & ((1 << 64) - 1), cd & ((1 << 64) - 1)
                return [("hash-is-function-of-canonical-form", h == un ^ (((ud << 32) | (ud >> 32)) & ((1 << 64) - 1)))]
            hn, hd = z3.SignExt(64 - cn.size(), cn), z3.SignExt(64 - cd.size(), cd)
            return [("hash-is-function-of-canonical-form", env.dom.E(env.ret_raw(path)) == (hn ^ z3.RotateLeft(hd, 32)))]
        rn, rd = env.out(path, "out")
        if fn == "reduce":
            # value preserved + lowest terms  <=>  (rn, rd) = +-(n/g, d/g)
            return [("lowest-terms-same-value", X.Or(X.And(X.eq(rn, qn), X.eq(rd, qd)), X.And(X.eq(rn, -qn), X.eq(rd, -qd))))]
        return [("canonical-form", X.And(X.eq(rn, cn), X.eq(rd, cd)))]
    return Kernel(name, args, ret, body, mode="bv", W=24, pre=pre, claims=claims,
                  unwind=4 * nb + 8, max_paths=40000, desc="%s(fraction<%s>)" % (fn, T), tags={"op": fn, "T": T},
                  timeout=60)


def kernels(opts):
    tier = opts["tier"]
    ks = []
    Ts = ["i8", "i16", "i32"] + (["i64"] if tier != "quick" else [])
    for T in Ts:
        for opn in ("add", "sub", "mul", "div"):
            ks.append(mk_arith("K%d" % len(ks), T, opn))
        ks.append(mk_neg("K%d" % len(ks), T))
        for opn in CMP:
            ks.append(mk_cmp("K%d" % len(ks), T, opn))
    for T, F in (("i16", "f32"), ("i32", "f32"), ("i32", "f64"), ("i64", "f64")):
        ks.append(mk_tofloat("K%d" % len(ks), T, F))
    for fn in ("reduce", "canonical", "hash"):
        ks.append(mk_reduce("K%d" % len(ks), "i8", fn))
    return ks
