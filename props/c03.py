"""C03 - comparisons agree with the mathematical order of the represented values."""
import random
from .common import *
from .c01 import sc, fits
from vlib import ex as X

EXPLANATION = ("C03: every comparison operator on scaled_integer pairs (different reps/exponents), elastic_integer pairs "
               "(different digits/signedness), elastic_scaled_integer pairs and wrapper-vs-built-in pairs is proved equal "
               "to the relation on the exact values (for two native reps of different signedness: the built-in comparison "
               "of the exponent-aligned reps, as the statement says); each operator is proved against its own relation, "
               "so trichotomy and the mutual consistency of the six operators follow.")
BOUNDS = {"quick": "scaled_integer: native rep pairs i8..u64, exponent shifts boundary+random within the promoted rep, radix 2 (and 10 for small shifts); elastic_integer digits {1,7,8,15,16,31,32,63} x signedness pairs; elastic_scaled_integer exponent pairs; built-in vs wrapped equivalence; seeded sample",
          "thorough": "larger sample of the same product"}

CMP = {"eq": "==", "ne": "!=", "lt": "<", "le": "<=", "gt": ">", "ge": ">="}


def rel(opn, x, y):
    return {"eq": lambda: X.eq(x, y), "ne": lambda: X.ne(x, y), "lt": lambda: x < y, "le": lambda: x <= y,
            "gt": lambda: x > y, "ge": lambda: x >= y}[opn]()


def as_bool_claim(env, path, expected):
    r = env.ret(path)
    if isinstance(r, bool) or isinstance(expected, bool):
        return X.Iff(r, expected)
    return r == expected


def mk_scaled(name, RL, E1, RR, E2, radix, opn):
    o = CMP[opn]
    PL, PR = promote(RL), promote(RR)
    C = usual(PL, PR)
    e = min(E1, E2)
    ml, mr = radix ** (E1 - e), radix ** (E2 - e)
    decl = "using {n}_L = %s;\nusing {n}_R = %s;\n" % (sc(cpp(RL), E1, radix), sc(cpp(RR), E2, radix))
    body = "    return cnl::_impl::from_rep<{n}_L>(a) %s cnl::_impl::from_rep<{n}_R>(b);" % o

    def pre(env):
        return X.And(fits(env.a["a"] * ml, PL), fits(env.a["b"] * mr, PR))

    def conv(v):
        if signed(C):
            return v
        return X.ite(v < 0, v + (1 << bits(C)), v)

    def claims(env, path):
        if path.kind != "RET":
            return [("unexpected-outcome", False)]
        x, y = env.a["a"] * ml, env.a["b"] * mr
        return [("relation", as_bool_claim(env, path, rel(opn, conv(x), conv(y))))]
    sh = max(E1, E2) - e
    W = max(bits(PL), bits(PR)) + (sh if radix == 2 else 4 * sh) + 8
    return Kernel(name, [("a", RL), ("b", RR)], "bool", body.replace("{n}", name), decls=decl.replace("{n}", name),
                  mode="bv", W=W, pre=pre, claims=claims, desc="%s:%d %s %s:%d radix %d" % (RL, E1, o, RR, E2, radix),
                  tags={"op": opn, "L": RL, "R": RR, "family": "scaled"})


def el(D, S):
    return "cnl::elastic_integer<%d, %s>" % (D, "int" if S else "unsigned")


def el_range(v, D, S):
    return X.And(v >= (-((1 << D) - 1) if S else 0), v <= (1 << D) - 1)


def mk_elastic(name, D1, S1, E1, D2, S2, E2, opn, scaled):
    o = CMP[opn]
    at = "i64" if S1 else "u64"
    bt = "i64" if S2 else "u64"
    if scaled:
        TL, TR = sc(el(D1, S1), E1), sc(el(D2, S2), E2)
    else:
        TL, TR = el(D1, S1), el(D2, S2)
        E1 = E2 = 0
    decl = "using {n}_L = %s;\nusing {n}_R = %s;\n" % (TL, TR)
    body = "    return verif::mk<{n}_L>(a) %s verif::mk<{n}_R>(b);" % o
    e = min(E1, E2)

    def pre(env):
        return X.And(el_range(env.a["a"], D1, S1), el_range(env.a["b"], D2, S2))

    def claims(env, path):
        if path.kind != "RET":
            return [("unexpected-outcome", False)]
        x, y = env.a["a"] * (1 << (E1 - e)), env.a["b"] * (1 << (E2 - e))
        return [("relation", as_bool_claim(env, path, rel(opn, x, y)))]
    return Kernel(name, [("a", at), ("b", bt)], "bool", body.replace("{n}", name), decls=decl.replace("{n}", name),
                  mode="bv", W=64 + abs(E1 - E2) + 8, pre=pre, claims=claims,
                  desc="elastic%s<%d,%s>:%d %s <%d,%s>:%d" % ("_scaled" if scaled else "", D1, "s" if S1 else "u", E1, o, D2, "s" if S2 else "u", E2),
                  tags={"op": opn, "family": "elastic_scaled" if scaled else "elastic"})


def mk_builtin_vs_wrapped(name, T, R, BT, opn, side, blo=None, bhi=None):
    """x OP builtin == x OP T(builtin) (same CNL type) -- equivalence of two kernels"""
    o = CMP[opn]
    decl = "using {n}_T = %s;\n" % T
    if side == 0:
        body = "    return verif::mk<{n}_T>(a) %s b;" % o
        ref = "    return verif::mk<{n}_T>(a) %s {n}_T{b};" % o
    else:
        body = "    return b %s verif::mk<{n}_T>(a);" % o
        ref = "    return {n}_T{b} %s verif::mk<{n}_T>(a);" % o
    def pre(env):
        # "that integer wrapped in the same CNL type": the integer must be representable in that type
        c = []
        if blo is not None:
            c.append(env.a["b"] >= blo)
        if bhi is not None:
            c.append(env.a["b"] <= bhi)
        return X.And(*c)
    return Kernel(name, [("a", R), ("b", BT)], "bool", body.replace("{n}", name), ref_body=ref.replace("{n}", name),
                  decls=decl.replace("{n}", name), mode="bv", W=72, pre=pre, desc="%s(%s) %s built-in %s (side %d) vs wrapped" % (T, R, o, BT, side),
                  tags={"op": opn, "family": "builtin-vs-wrapped"})


def mk_builtin_value(name, T, R, E, lo, hi, BT, opn, side):
    """CNL number OP built-in integer, judged BY VALUE (the built-in need not be representable in the CNL type)"""
    o = CMP[opn]
    decl = "using {n}_T = %s;\n" % T
    body = ("    return verif::mk<{n}_T>(a) %s b;" if side == 0 else "    return b %s verif::mk<{n}_T>(a);") % o

    def pre(env):
        c = []
        if lo is not None:
            c.append(env.a["a"] >= lo)
        if hi is not None:
            c.append(env.a["a"] <= hi)
        # as for scaled pairs: the exponent-aligned representations fit the promoted operand types (an alignment that
        # overflows is the up-scaling defect recorded under C04, not a comparison matter)
        if E < 0:
            c.append(fits(env.a["b"] * (1 << (-E)), promote(BT)))
        elif E > 0 and "elastic" not in T:
            c.append(fits(env.a["a"] * (1 << E), promote(R)))
        return X.And(*c)

    def claims(env, path):
        if path.kind != "RET":
            return [("unexpected-outcome", False)]
        x, y = env.a["a"], env.a["b"]
        if E >= 0:
            x = x * (1 << E)
        else:
            y = y * (1 << (-E))
        if side == 1:
            x, y = y, x
        return [("relation-by-value", as_bool_claim(env, path, rel(opn, x, y)))]
    return Kernel(name, [("a", R), ("b", BT)], "bool", body.replace("{n}", name), decls=decl.replace("{n}", name), mode="bv",
                  W=64 + abs(E) + 8, pre=pre, claims=claims, desc="%s(%s) %s built-in %s (side %d) by value" % (T, R, o, BT, side),
                  tags={"op": opn, "family": "builtin-by-value"})


def mk_wide_mixed(name, D1, D2, opn):
    """two multi-limb wide_integers of DIFFERENT widths, built through the type's own operators: a = ah*2^64 + al
    (D1 digits), b = bh*2^128 + bl (D2 digits)"""
    import z3
    o = CMP[opn]
    body = ("    using W1 = cnl::wide_integer<%d>;\n    using W2 = cnl::wide_integer<%d>;\n"
            "    W1 a = (W1{ah} << 64) + W1{al};\n    W2 b = (W2{bh} << 128) + W2{bl};\n"
            "    return a %s b;") % (D1, D2, o)
    WW = 260

    def claims(env, path):
        if path.kind != "RET":
            return [("unexpected-outcome", False)]
        if getattr(path, "concrete", False):
            A = env.a["ah"] * (1 << 64) + env.a["al"]
            B = env.a["bh"] * (1 << 128) + env.a["bl"]
            exp = {"eq": A == B, "ne": A != B, "lt": A < B, "le": A <= B, "gt": A > B, "ge": A >= B}[opn]
            return [("relation-by-value", bool(env.ret(path)) == exp)]
        ah, al, bh, bl = (env.dom.E(env.raw[k_]) for k_ in ("ah", "al", "bh", "bl"))
        A = z3.SignExt(WW - 64, ah) * z3.BitVecVal(1 << 64, WW) + z3.ZeroExt(WW - 64, al)
        B = z3.SignExt(WW - 64, bh) * z3.BitVecVal(1 << 128, WW) + z3.ZeroExt(WW - 64, bl)
        exp = {"eq": A == B, "ne": A != B, "lt": A < B, "le": A <= B, "gt": A > B, "ge": A >= B}[opn]
        return [("relation-by-value", as_bool_claim(env, path, exp))]
    return Kernel(name, [("ah", "i64"), ("al", "u64"), ("bh", "i64"), ("bl", "u64")], "bool", body, mode="bv", W=72, claims=claims,
                  unwind=80, max_paths=20000, timeout=120,
                  desc="wide_integer<%d> %s wide_integer<%d> (multi-limb, different widths)" % (D1, o, D2),
                  tags={"op": opn, "family": "wide-mixed-width", "D1": D1, "D2": D2})


def kernels(opts):
    tier = opts["tier"]
    rng = random.Random("c03/%s/%s" % (opts["seed"], tier))
    specs = []
    for RL in I8:
        for RR in I8:
            PL, PR = promote(RL), promote(RR)
            for opn in CMP:
                for side in (0, 1):
                    P = PL if side == 0 else PR
                    room = bits(P) - (1 if signed(P) else 0)
                    for sh in sorted({0, 1, 8, room - 1, rng.randrange(0, room), rng.randrange(0, room)}):
                        if sh == 0 and side:
                            continue
                        org = rng.choice([-70, 70 - sh, 0, rng.randint(-70, 70 - sh)])
                        E1, E2 = (org + sh, org) if side == 0 else (org, org + sh)
                        specs.append(("s", RL, E1, RR, E2, 2, opn))
                specs.append(("s", RL, rng.choice([0, 1, 2]), RR, rng.choice([-2, -1, 0]), 10, opn))
    DS = [1, 7, 8, 15, 16, 31, 32, 63]
    for D1 in DS:
        for D2 in DS:
            for S1 in (1, 0):
                for S2 in (1, 0):
                    for opn in CMP:
                        specs.append(("e", D1, S1, 0, D2, S2, 0, opn, False))
                        if D1 <= 32 and D2 <= 32:
                            E1 = rng.choice([-16, -8, -1, 0, 3])
                            E2 = E1 + rng.choice([-12, -5, -1, 0, 1, 7, 11])
                            specs.append(("e", D1, S1, E1, D2, S2, E2, opn, True))
    for opn in CMP:
        for side in (0, 1):
            for (T, R, lo, hi) in (("cnl::elastic_integer<10>", "i16", -1023, 1023), ("cnl::elastic_integer<20, unsigned>", "u16", 0, None),
                           ("cnl::scaled_integer<std::int32_t, cnl::power<-4>>", "i16", None, None),
                           ("cnl::scaled_integer<std::int64_t, cnl::power<-8>>", "i32", None, None),
                           ("cnl::overflow_integer<std::int32_t, cnl::native_overflow_tag>", "i32", None, None),
                           ("cnl::rounding_integer<std::int32_t, cnl::native_rounding_tag>", "i32", None, None)):
                for BT in ("i8", "i16", "u8"):
                    specs.append(("w", T, R, BT, opn, side, lo, hi))
    frac = 0.3 if tier == "quick" else 1.0
    specs = seeded_subset(specs, frac, opts["seed"], "c03")
    # by-value comparisons with built-in integers that the CNL type cannot represent (always run).  Only pairings
    # for which the statement promises a by-value answer: elastic reps, or native reps of the same signedness
    for opn in CMP:
        for side in (0, 1):
            for (T, R, E, lo, hi, BTs) in (
                    ("cnl::elastic_integer<31>", "i32", 0, -(2 ** 31 - 1), 2 ** 31 - 1, ("u32", "i64", "u64")),
                    ("cnl::elastic_integer<10>", "i16", 0, -1023, 1023, ("i64", "u32", "i8")),
                    ("cnl::elastic_integer<16, unsigned>", "u16", 0, 0, None, ("i32", "i64")),
                    ("cnl::elastic_scaled_integer<8, cnl::power<2>>", "i16", 2, -255, 255, ("i32", "u64")),
                    ("cnl::elastic_scaled_integer<12, cnl::power<-3>>", "i16", -3, -4095, 4095, ("i32", "i64")),
                    ("cnl::scaled_integer<std::int16_t, cnl::power<2>>", "i16", 2, None, None, ("i32", "i64")),
                    ("cnl::scaled_integer<std::int32_t, cnl::power<-4>>", "i32", -4, None, None, ("i64", "i8")),
                    ("cnl::scaled_integer<std::uint8_t, cnl::power<0>>", "u8", 0, None, None, ("u32", "u64"))):
                for BT in BTs:
                    specs.append(("v", T, R, E, lo, hi, BT, opn, side))
    for opn in ("lt", "le", "gt", "ge"):   # (== and != between different widths do not compile)
        specs.append(("wm", 130, 200, opn))
    ks = []
    for s in specs:
        n = "K%d" % len(ks)
        if s[0] == "s":
            ks.append(mk_scaled(n, *s[1:]))
        elif s[0] == "e":
            ks.append(mk_elastic(n, *s[1:]))
        elif s[0] == "v":
            ks.append(mk_builtin_value(n, *s[1:]))
        elif s[0] == "wm":
            ks.append(mk_wide_mixed(n, *s[1:]))
        else:
            ks.append(mk_builtin_vs_wrapped(n, *s[1:]))
    return ks
