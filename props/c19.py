"""C19 - sqrt returns the floor of the square root at the result's resolution."""
from .common import *
from vlib import ex as X

EXPLANATION = ("C19: cnl::sqrt is executed symbolically (both loops unrolled path-wise, unwinding obligation = "
               "termination within digits/2+2 iterations) for every non-negative value of the type and the result r is "
               "proved to satisfy 0 <= r, r*r <= x < (r+1)*(r+1); elastic_integer results fit the halved digit count, "
               "scaled_integer results carry exponent E/2 (emitted constant).")
BOUNDS = {"quick": "T in {u8,i8,u16,i16,u32,i32} in full; uint64_t and unsigned __int128 in slices (8 symbolic bits at bit 56 / 120 / 60 plus 4 at the bottom, other bits zero; signed 64/128-bit instantiations and other bit patterns outside the bound); elastic_integer<D> D in {7,8,15,16,31} and narrowest types int8_t/int16_t/uint8_t narrower than the root; scaled_integer<i16/i32, power<E>> even E in {-60..60 step 12}",
          "thorough": "adds u64/i64 (INT encoding attempt under the cap), more slices (u128 at bit 90, u64 at bit 30) and all even exponents step 4"}


def post(x, r):
    return X.And(r >= 0, r * r <= x, x < (r + 1) * (r + 1))


def mk(name, T):
    n = bits(T)
    R = promote(T)
    body = "    return cnl::sqrt(a);"

    def pre(env):
        return env.a["a"] >= 0

    def claims(env, path):
        if path.kind != "RET":
            return [("unexpected-outcome", False)]
        return [("floor-sqrt", post(env.a["a"], env.ret(path)))]
    return Kernel(name, [("a", T)], R, body, mode="bv" if n <= 32 else "int", W=max(2 * n + 6, 40), pre=pre, claims=claims,
                  unwind=n + 4, max_paths=70000, desc="sqrt(%s)" % T, tags={"T": T}, timeout=60)


def mk_slice(name, T, hi_shift):
    """wide built-in reps (64/128 bit) in slices: 8 symbolic bits at bit position hi_shift and 4 at the bottom, the rest
    zero - every value of the slice, so the initial bit position and the top-of-range iterations are exercised with a
    BV query that has only 12 free bits (the full-width post-condition is out of reach for the SAT back end)"""
    n = bits(T)
    body = "    return cnl::sqrt(static_cast<%s>((static_cast<%s>(a) << %d) | b));" % (cpp(T), cpp(T), hi_shift)

    def pre(env):
        return X.And(env.a["a"] >= 0, env.a["a"] <= 0xff, env.a["b"] >= 0, env.a["b"] <= 0xf)

    def claims(env, path):
        if path.kind != "RET":
            return [("unexpected-outcome", False)]
        x = env.a["a"] * (1 << hi_shift) + env.a["b"]
        return [("floor-sqrt", post(x, env.ret(path)))]
    return Kernel(name, [("a", "u32"), ("b", "u32")], T, body, mode="bv", W=2 * n + 6, pre=pre, claims=claims, unwind=n + 4,
                  max_paths=70000, desc="sqrt(%s) slice a<<%d|b, a<2^8, b<2^4" % (T, hi_shift), tags={"T": T, "slice": hi_shift}, timeout=60)


def mk_elastic(name, D, NT="int"):
    T = "cnl::elastic_integer<%d, %s>" % (D, NT)
    at = "i32" if D <= 31 else "i64"
    decl = "using {n}_Res = decltype(cnl::sqrt(std::declval<%s>()));\n" % T
    body = "    return static_cast<%s>(cnl::unwrap(cnl::sqrt(verif::mk<%s>(a))));" % (cpp(at), T)
    consts = {"digits": "cnl::digits_v<{n}_Res>"}

    def pre(env):
        return X.And(env.a["a"] >= 0, env.a["a"] <= (1 << D) - 1)

    def claims(env, path):
        if path.kind != "RET":
            return [("unexpected-outcome", False)]
        r = env.ret(path)
        return [("floor-sqrt", post(env.a["a"], r)), ("halved-digits", env.c["digits"] == (D + 1) // 2),
                ("fits-result-digits", r <= (1 << env.c["digits"]) - 1)]
    return Kernel(name, [("a", at)], at, body.replace("{n}", name), decls=decl.replace("{n}", name),
                  consts={k: v.replace("{n}", name) for k, v in consts.items()}, mode="bv", W=2 * bits(at) + 6, pre=pre,
                  claims=claims, unwind=bits(at) + 4, max_paths=70000, desc="sqrt(elastic_integer<%d,%s>)" % (D, NT), tags={"D": D, "NT": NT}, timeout=60)


def mk_scaled(name, T, E):
    ST = "cnl::scaled_integer<%s, cnl::power<%d>>" % (cpp(T), E)
    decl = "using {n}_Res = decltype(cnl::sqrt(std::declval<%s>()));\n" % ST
    body = "    return static_cast<%s>(cnl::unwrap(cnl::sqrt(cnl::_impl::from_rep<%s>(a))));" % (cpp(promote(T)), ST)
    consts = {"exp": "cnl::_impl::tag_of_t<{n}_Res>::exponent"}

    def pre(env):
        return env.a["a"] >= 0

    def claims(env, path):
        if path.kind != "RET":
            return [("unexpected-outcome", False)]
        # x = a*2^E, r*2^(E/2): r^2 <= a < (r+1)^2 is exactly r^2 <= x < (r + one unit)^2 in units of 2^E
        return [("floor-sqrt-at-half-exponent", post(env.a["a"], env.ret(path))), ("half-exponent", env.c["exp"] * 2 == E)]
    n = bits(T)
    return Kernel(name, [("a", T)], promote(T), body.replace("{n}", name), decls=decl.replace("{n}", name),
                  consts={k: v.replace("{n}", name) for k, v in consts.items()}, mode="bv", W=2 * max(n, 32) + 6,
                  pre=pre, claims=claims, unwind=n + 4, max_paths=70000, desc="sqrt(scaled_integer<%s,%d>)" % (T, E),
                  tags={"T": T, "E": E}, timeout=60)


def kernels(opts):
    tier = opts["tier"]
    ks = []
    for T in ["u8", "i8", "u16", "i16", "u32", "i32"] + (["u64", "i64"] if tier != "quick" else []):
        ks.append(mk("K%d" % len(ks), T))
    # unsigned 64- and 128-bit built-in reps in slices (top of the range and the middle; the signed instantiations are
    # not if-converted by clang and run out of the path budget - outside the bound)
    for (T, sh) in (("u64", 56), ("u128", 120), ("u128", 60)) + ((("u128", 90), ("u64", 30)) if tier != "quick" else ()):
        ks.append(mk_slice("K%d" % len(ks), T, sh))
    for D in (7, 8, 15, 16, 31):
        ks.append(mk_elastic("K%d" % len(ks), D))
    # narrowest types narrower than the root (the root's rep is wider than Narrowest)
    for (D, NT) in ((15, "std::int8_t"), (31, "std::int16_t"), (16, "std::uint8_t"), (31, "std::int8_t")) + (((63, "int"), (62, "std::int16_t")) if tier != "quick" else ()):
        ks.append(mk_elastic("K%d" % len(ks), D, NT))
    for E in range(-60, 61, 12 if tier == "quick" else 4):
        ks.append(mk_scaled("K%d" % len(ks), "i16" if (E // 4) % 2 else "i32", E))
    return ks
