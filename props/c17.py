"""C17 - constructing a fraction from floating point (partial: prefix + bounded unrolling of the mediant loop)."""
import z3
import os
from .common import *
from . import fpx
from vlib import ex as X

EXPLANATION = ("C17 (partial): fraction<T>(float) is executed symbolically.  Decided: (i) the straight-line prefix - every "
               "in-range input that is exactly an integer returns that integer over 1, negative inputs return the negation "
               "of the result for -x; (ii) every execution that leaves the Stern-Brocot/mediant loop within K iterations "
               "(K stated below) returns a fraction with positive denominator, components in range, the sign of the input, "
               "a value between the two integers adjacent to the input and within max(1,|x|)*2^(4-D) of it.  NOT decided: "
               "termination and the accuracy bound for inputs needing more than K iterations (unbounded floating-point "
               "loop; such paths are reported as 'bound-exceeded', never as success).")
BOUNDS = {"quick": "T = int8_t from float: integer inputs (all), loop unrolled K = 2 (fractional inputs), exact ratios k/4 with |x| < 4 (exactness, 3-step termination as a claim); T = int16_t from float / double: integer inputs",
          "thorough": "K = 5 for int8_t, K = 3 for int16_t"}
OPTS = {"quick": {"kernel_budget": 700, "timeout": 45}, "thorough": {"kernel_budget": 1500, "timeout": 300}}

OUT2 = Arg("out", "i32", "arr", n=2, out=True, init="uninit")


def mk(name, T, F, family, K, ndebug=False):
    D = bits(T) - 1
    body = ("    cnl::fraction<%s> f(x);\n    out[0] = f.numerator; out[1] = f.denominator;\n    return 0;" % cpp(T))
    hi = tmax(T)

    def pre(env):
        x = env.a["x"]
        w = fpx.wide(x)
        c = [fpx.finite(x), z3.fpLEQ(z3.fpAbs(w), fpx.const(hi))]
        if family == "integer":
            c.append(z3.fpEQ(z3.fpRoundToIntegral(fpx.RTZ, w), w))
        elif family == "quarters":
            # exact ratios k/4 with |x| < 4: the search provably needs at most 3 mediant steps, so the unwinding bound
            # is part of the claim (terminates=True: a feasible path beyond it is replayed on the real build)
            c = [z3.Or(*[z3.fpEQ(x, z3.FPVal(k / 4.0, x.sort())) for k in range(-15, 16)])]
        elif family == "tiny":
            # 0 < x <= 2^-8: three plain steps towards 0 (1/2, 1/3, 1/4), then the accelerated step runs into the
            # denominator clamp - the only route to that code within a small unrolling bound
            c = [fpx.finite(x), z3.fpGEQ(w, fpx.pow2(-12)), z3.fpLEQ(w, fpx.pow2(-8))]
        else:
            c.append(z3.Not(z3.fpEQ(z3.fpRoundToIntegral(fpx.RTZ, w), w)))
        return z3.And(*c)

    def claims(env, path):
        if path.kind == "UNWIND":
            return []
        if path.kind != "RET":
            return [("unexpected-outcome", False)]
        x = env.a["x"]
        w = fpx.wide(x)
        n, d = env.out(path, "out")
        conc = getattr(path, "concrete", False)
        nb = z3.BitVecVal(n, 40) if conc else n
        db = z3.BitVecVal(d, 40) if conc else d
        if not conc and nb.size() != 40:
            nb = z3.SignExt(40 - nb.size(), nb) if nb.size() < 40 else z3.Extract(39, 0, nb)
            db = z3.SignExt(40 - db.size(), db) if db.size() < 40 else z3.Extract(39, 0, db)
        nw = z3.fpSignedToFP(fpx.RNE, nb, fpx.WIDE)
        dw = z3.fpSignedToFP(fpx.RNE, db, fpx.WIDE)
        cl = [("positive-denominator", db > 0),
              ("components-in-range", z3.And(nb >= -hi, nb <= hi, db <= hi)),
              ("sign-of-input", z3.And(z3.Implies(z3.fpLT(w, fpx.const(0)), nb <= 0), z3.Implies(z3.fpGT(w, fpx.const(0)), nb >= 0)))]
        if family == "integer":
            cl.append(("exact-integer", z3.And(db == 1, z3.fpEQ(nw, w))))
        elif family == "quarters":
            cl.append(("exact-ratio", z3.fpEQ(nw, z3.fpMul(fpx.RNE, w, dw))))
        else:
            fl = z3.fpRoundToIntegral(fpx.RTN, w)
            ce = z3.fpRoundToIntegral(fpx.RTP, w)
            # fl <= n/d <= ce  <=>  fl*d <= n <= ce*d   (d > 0; products exact in the wide format)
            cl.append(("between-adjacent-integers", z3.And(z3.fpLEQ(z3.fpMul(fpx.RNE, fl, dw), nw), z3.fpLEQ(nw, z3.fpMul(fpx.RNE, ce, dw)))))
            # |n/d - x| < max(1,|x|) * 2^(4-D)  <=>  |n - x*d| < max(1,|x|) * 2^(4-D) * d
            tol = z3.fpMul(fpx.RNE, z3.fpMax(fpx.const(1), z3.fpAbs(w)), fpx.pow2(4 - D))
            err = z3.fpAbs(z3.fpSub(fpx.RNE, nw, z3.fpMul(fpx.RNE, w, dw)))
            cl.append(("accuracy-bound", z3.fpLT(err, z3.fpMul(fpx.RNE, tol, dw))))
        return cl
    return Kernel(name, [("x", F), OUT2], "i32", body, mode="bv", W=40, pre=pre, claims=claims, unwind=K, max_paths=4000, prune_timeout_ms=20000,
                  terminates=(family == "quarters"), ndebug=ndebug, desc="fraction<%s>(%s) %s inputs, K=%d%s" % (T, F, family, K, " (NDEBUG)" if ndebug else ""), tags={"T": T, "F": F, "family": family, "K": K})


def kernels(opts):
    tier = opts["tier"]
    ks = [mk("K0", "i8", "f32", "integer", 3), mk("K1", "i16", "f32", "integer", 3), mk("K2", "i16", "f64", "integer", 3),
          mk("K3", "i8", "f32", "fractional", 2 if tier == "quick" else 4), mk("Q0", "i8", "f32", "quarters", 3)]
    if os.environ.get("VERIF_C17_TINY"):
        ks.append(mk("T0", "i8", "f32", "tiny", 5))
        ks.append(mk("T1", "i8", "f32", "tiny", 6, ndebug=True))
    if tier != "quick":
        # (int32 from double: the only place where numerator + 1 is not promoted; ~1-6 min depending on load: thorough)
        ks.append(mk("K5", "i32", "f64", "integer", 3))
        ks.append(mk("Q1", "i16", "f64", "quarters", 3))
        ks.append(mk("K4", "i16", "f32", "fractional", 3))
    return ks
