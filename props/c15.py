"""C15 - literals, parsing and constant-driven deduction yield exactly the written value."""
import random
from .common import *
from vlib import ex as X

EXPLANATION = ("C15: (symbolic part) the run-time cnl::_impl::parse<int64_t> and scan_string are executed on NUL-terminated "
               "buffers whose digit positions are symbolic characters constrained only to the digits of the base (fixed "
               "token shapes: sign, base prefix, digit count, separator positions); the result is proved equal to the "
               "Horner value of the token and the scanned base / digit counts / bit width to the grammar's.  (ground "
               "part, no free variables - stated as such) literal operators _c, _cnl, _cnl2, _wide and the make_* / "
               "constant-driven deductions are instantiated on a boundary-rich token set and the value, digits and "
               "exponent read from the IR constants are compared with a python oracle.")
BOUNDS = {"quick": "token shapes: decimal 1/5/9/18/19 digits, hex 1/8/15/16, octal 1/7/21, binary 1/16/63, signs +,-,none, separators; ~70 ground tokens/constants",
          "thorough": "adds 20-digit decimal / 22-digit octal / 64-bit binary shapes crossing the second chunk"}
EXTRA_INCLUDES = ()

DIGITS = {2: "01", 8: "01234567", 10: "0123456789", 16: "0123456789abcdefABCDEF"}


def digit_val(c, base):
    """exact digit value of a character term (python int or symbolic)"""
    if base <= 10:
        return c - 48
    return X.ite(X.And(c >= 48, c <= 57), c - 48, X.ite(X.And(c >= 97, c <= 102), c - 87, c - 55))


def is_digit(c, base):
    if base <= 10:
        return X.And(c >= 48, c <= 48 + base - 1)
    return X.Or(X.And(c >= 48, c <= 57), X.And(c >= 97, c <= 102), X.And(c >= 65, c <= 70))


def shape_str(sign, base, pattern):
    pre = {2: "0b", 8: "0", 10: "", 16: "0x"}[base]
    return sign + pre + pattern


def mk_parse(name, sign, base, pattern, what="parse"):
    text = shape_str(sign, base, pattern)
    L = len(text)
    args = [Arg("s", "u8", "buf", n=L + 1)]
    if what == "parse":
        body = "    return cnl::_impl::parse<std::int64_t>(reinterpret_cast<char const*>(s));"
        ret = "i64"
    else:
        args.append(Arg("out", "i32", "arr", n=6, out=True, init="uninit"))
        body = ("    auto const* str = reinterpret_cast<char const*>(s);\n    auto p = cnl::_impl::scan_string(str, cnl::_impl::strlen(str));\n"
                "    out[0] = p.base; out[1] = p.num_digits; out[2] = p.num_fractional_digits; out[3] = p.num_bits;\n"
                "    out[4] = p.is_negative; out[5] = p.first_numeral;\n    return 0;")
        ret = "i32"
    dpos = [i for i, ch in enumerate(text) if ch == "d"]
    nd = len(dpos)

    def value(env):
        b = env.a["s"]
        v = 0
        for i in dpos:
            v = v * base + digit_val(b[i], base)
        return v

    def pre(env):
        b = env.a["s"]
        c = []
        for i, ch in enumerate(text):
            if ch == "d":
                c.append(is_digit(b[i], base))
            else:
                c.append(X.eq(b[i], ord(ch)))
        c.append(X.eq(b[L], 0))
        # decimal tokens must not look like octal ones; the first digit of a multi-digit decimal is not 0
        if base == 10 and nd > 1:
            c.append(X.ne(b[dpos[0]], 48))
        v = value(env)
        c.append(v <= tmax("i64"))
        return X.And(*c)

    def claims(env, path):
        if path.kind != "RET":
            return [("unexpected-outcome", False)]
        v = value(env)
        if what == "parse":
            exp = -v if sign == "-" else v
            return [("value-of-the-token", X.eq(env.ret(path), exp))]
        o = env.out(path, "out")
        bl = X.bitlen_nonneg(v, 64)
        # only what is observable through the deduced type / value: enough bits, the sign, no fractional digits.
        # (the reported base / digit count / first numeral are internal: e.g. "-07" is scanned as a 2-digit
        # decimal, which denotes the same value)
        nfrac = sum(1 for i in dpos if "." in text and i > text.index("."))
        # (num_bits is an estimate that only selects the storage: result digits = max(31, min(num_bits, max)) for the
        #  narrowest type int, so an under-estimate below 31 bits -- e.g. 13 for "9999" -- is not observable)
        return [("fractional-digits", X.eq(o[2], nfrac)), ("wide-enough", X.Or(o[3] >= bl, bl <= 31)),
                ("sign", X.eq(o[4], 1 if sign == "-" else 0))]
    return Kernel(name, args, ret, body, mode="int", alt_modes=("bv",), W=80, pre=pre, claims=claims, unwind=L + 8,
                  max_paths=60000, timeout=60, desc="%s(\"%s\")" % (what, text), tags={"family": what, "base": base, "nd": nd})


# ------------------------------------------------------------------------------------------- ground part
def chq(c):
    return "'\\''" if c == "'" else "'%s'" % c


def mk_ground(name, body, ret, expect, desc, consts=None, cexpect=None):
    def claims(env, path):
        if path.kind != "RET":
            return [("unexpected-outcome", False)]
        r = env.ret_raw(path)
        if getattr(path, "concrete", False):
            v = r
        else:
            if r.c is None:
                return [("constant-folded", False)]
            v = r.sc if signed(ret) else r.c
        cl = [("value", v == expect)]
        for k, ev in (cexpect or {}).items():
            cl.append((k, env.c[k] == ev))
        return cl
    return Kernel(name, [], ret, body, consts=consts or {}, mode="bv", W=80, claims=claims, desc=desc + " (ground)",
                  tags={"family": "ground"})


def used_digits(v):
    return (v if v >= 0 else -v - 1).bit_length()


def trailing(v):
    if v == 0:
        return 0
    return (v & -v).bit_length() - 1


def ground_kernels(opts):
    rng = random.Random("c15g/%s" % opts["seed"])
    ks = []
    toks = []
    vals = sorted({0, 1, 2, 7, 8, 255, 256, 65535, 65536, (1 << 31) - 1, 1 << 31, (1 << 32) + 1, 0x5555555555, (1 << 62) + 1,
                   (1 << 63) - 1, 10 ** 17 + 1, 10 ** 18, 999999999999999999, 0xAAAAAAAA, 12345678901234567})
    for v in vals:
        for fmt in ("%d", "0x%x", "0%o", "0b%s"):
            if fmt == "0b%s":
                t = "0b" + bin(v)[2:]
            elif fmt == "0%o":
                t = "0%o" % v if v else "0"
            else:
                t = fmt % v
            toks.append((t, v))
    toks.append(("1'000'000", 1000000))
    toks.append(("0xFF'FF", 0xFFFF))
    toks.append(("0b1010'1010", 0xAA))
    if opts["tier"] == "quick":
        toks = rng.sample(toks, 36)
    for t, v in toks:
        n = "G%d" % len(ks)
        ks.append(mk_ground(n, "    using namespace cnl::literals;\n    return decltype(%s_c)::value;" % t, "i64", v, "%s_c" % t))
    # _cnl / _cnl2 : value = rep * radix^exponent
    for t, rep_times in (("3.141", None), ("0.5", None), ("65536", None), ("1.5", None), ("0.0625", None), ("100", None), ("0x1.8", None)):
        pass
    for t, (num, den) in (("1.5", (3, 2)), ("0.5", (1, 2)), ("0.0625", (1, 16)), ("65536", (65536, 1)), ("12.75", (51, 4)), ("1024", (1024, 1))):
        n = "G%d" % len(ks)
        body = ("    using namespace cnl::literals;\n    constexpr auto x = %s_cnl2;\n"
                "    static_assert(cnl::_impl::tag_of_t<std::remove_cvref_t<decltype(x)>>::radix == 2);\n"
                "    return static_cast<std::int64_t>(cnl::unwrap(x)) ;") % t
        e = -(den.bit_length() - 1)
        tz = trailing(num) if den == 1 else 0
        rep = num >> tz
        ks.append(mk_ground(n, body, "i64", rep, "%s_cnl2" % t,
                            consts={"exp": "cnl::_impl::tag_of_t<decltype(%s)>::exponent" % ("cnl::literals::operator\"\"_cnl2<%s>()" % ", ".join(chq(c) for c in t)),
                                    "digits": "cnl::digits_v<decltype(%s)>" % ("cnl::literals::operator\"\"_cnl2<%s>()" % ", ".join(chq(c) for c in t))},
                            cexpect={"exp": e + tz, "digits": used_digits(rep)}))
    for t, (sig, e10) in (("3.141", (3141, -3)), ("0.5", (5, -1)), ("100", (1, 2)), ("12.75", (1275, -2)), ("7", (7, 0)),
                          ("3.141'592", (3141592, -6)), ("0.000'1", (1, -4)), ("1'234.567'891", (1234567891, -6)), ("1'000.5", (10005, -1))):
        n = "G%d" % len(ks)
        lit = "cnl::literals::operator\"\"_cnl<%s>()" % ", ".join(chq(c) for c in t)
        body = "    return static_cast<std::int64_t>(cnl::unwrap(%s));" % lit
        ks.append(mk_ground(n, body, "i64", sig, "%s_cnl" % t,
                            consts={"exp": "cnl::_impl::tag_of_t<decltype(%s)>::exponent" % lit, "radix": "cnl::_impl::tag_of_t<decltype(%s)>::radix" % lit,
                                    "digits": "cnl::digits_v<decltype(%s)>" % lit},
                            cexpect={"exp": e10, "radix": 10, "digits": used_digits(sig)}))
    # constant-driven deduction
    cvals = [0, 1, -1, 2, 3, 8, 255, 256, -256, 65535, 65536, (1 << 31) - 1, -(1 << 31), 1 << 40, (1 << 40) + 1, 0x5555, 0x55550000,
             (1 << 62), -(1 << 62) - 1, 96, 40960]
    if opts["tier"] == "quick":
        cvals = rng.sample(cvals, 10)
    for v in cvals:
        lit = "cnl::constant<%dLL>{}" % v if v > -(1 << 63) else "cnl::constant<(-9223372036854775807LL-1)>{}"
        n = "G%d" % len(ks)
        T = "decltype(cnl::make_elastic_integer(%s))" % lit
        ks.append(mk_ground(n, "    return static_cast<std::int64_t>(cnl::unwrap(cnl::make_elastic_integer(%s)));" % lit, "i64", v,
                            "make_elastic_integer(constant<%d>)" % v, consts={"digits": "cnl::digits_v<%s>" % T},
                            cexpect={"digits": max(used_digits(abs(v)) if v >= 0 else used_digits(-v), 1) if False else None} if False else None))
        n = "G%d" % len(ks)
        T = "decltype(cnl::make_elastic_scaled_integer(%s))" % lit
        tz = trailing(v)
        ks.append(mk_ground(n, "    return static_cast<std::int64_t>(cnl::unwrap(cnl::make_elastic_scaled_integer(%s)));" % lit, "i64",
                            v >> tz if v else 0, "make_elastic_scaled_integer(constant<%d>)" % v,
                            consts={"exp": "cnl::_impl::tag_of_t<%s>::exponent" % T, "digits": "cnl::digits_v<%s>" % T},
                            cexpect={"exp": tz}))
        n = "G%d" % len(ks)
        T = "decltype(cnl::make_static_number(%s))" % lit
        k_ = mk_ground(n, "    return static_cast<std::int64_t>(cnl::unwrap(cnl::make_static_number(%s)));" % lit, "i64",
                       v >> tz if v else 0, "make_static_number(constant<%d>)" % v,
                       consts={"exp": "cnl::_impl::tag_of_t<%s>::exponent" % T}, cexpect={"exp": tz})
        k_.tags = dict(k_.tags, what="make_static_number", neg_pow2=(v < 0 and (-v) & (-v - 1) == 0))
        ks.append(k_)
    for v, t in ((5, "int"), (-70000, "std::int32_t"), (255, "std::uint8_t")):
        n = "G%d" % len(ks)
        ks.append(mk_ground(n, "    return static_cast<std::int64_t>(cnl::unwrap(cnl::make_scaled_integer(%s{%d})));" % (t, v), "i64", v,
                            "make_scaled_integer(%s{%d})" % (t, v)))
    return ks


def kernels(opts):
    tier = opts["tier"]
    core_shapes = []
    for sign in ("", "-", "+"):
        core_shapes += [(sign, 10, "d"), (sign, 10, "ddddd"), (sign, 16, "d"), (sign, 16, "dddd"),
                        (sign, 8, "d"), (sign, 8, "ddddddd"), (sign, 2, "d"), (sign, 2, "d" * 16)]
    long_shapes = [("", 10, "d" * 9), ("-", 10, "d" * 9), ("", 10, "d" * 18), ("-", 10, "d" * 19), ("", 10, "dd'ddd'ddd"), ("", 16, "d" * 8),
                   ("", 16, "d" * 16), ("", 16, "dd'dd"), ("-", 16, "dd'dd"), ("", 8, "d" * 21),
                   ("", 2, "d" * 63), ("", 2, "dddd'dddd")]
    if tier != "quick":
        long_shapes += [("", 10, "d" * 20), ("", 8, "d" * 22), ("", 2, "d" * 64), ("-", 16, "d" * 15), ("-", 8, "d" * 21), ("-", 2, "d" * 63)]
    else:
        rng = random.Random("c15/%s" % opts["seed"])
        long_shapes = rng.sample(long_shapes, 8)
    shapes = core_shapes + long_shapes
    ks = []
    for (sign, base, pat) in shapes:
        ks.append(mk_parse("K%d" % len(ks), sign, base, pat, "parse"))
        if len(pat) <= 9:
            ks.append(mk_parse("K%d" % len(ks), sign, base, pat, "scan"))
    # tokens with a fractional part (what _cnl / _cnl2 scan): the number of fractional digits is the exponent
    # (no sign: a literal token never contains one, and run-time parse() is for integers)
    for (sign, pat) in (("", "d.ddd"), ("", "dd.d'dd"), ("", "d'ddd.dd'd"), ("", "d.d'd'd"), ("", "ddd.d")):
        ks.append(mk_parse("K%d" % len(ks), sign, 10, pat, "scan"))
    return ks + ground_kernels(opts)
