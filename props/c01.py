"""C01 - scaled_integer +, -, *, unary - are exact real arithmetic on rep x radix^exponent."""
from .common import *
from vlib import ex as X

EXPLANATION = ("C01: for each (Rep pair, exponent pair, radix, operator) instantiation the kernel applies the real "
               "operator to from_rep operands; the returned representation times radix^result-exponent is proved equal "
               "to the exact real result for every operand value whose aligned operands and exact result fit the "
               "promoted representation; result exponent/digits/signedness are read from emitted constants.")
BOUNDS = {"quick": "native reps i8..u64 (all 64 ordered pairs sampled), exponent shifts {0,1,3,8,15,16,30,31,33,62} placed at exponent origins {-70,-33,-8,0,5,40,70-shift}, radix 2 and 10 (|shift|<=4), built-in operand (exponent 0), elastic_integer / rounding_integer reps (small set); seeded sample of the product (VERIF_SEED)",
          "thorough": "the whole product incl. i128/u128 reps"}


def sc(rep_cpp, e, radix=2):
    if radix == 2:
        return "cnl::scaled_integer<%s, cnl::power<%d>>" % (rep_cpp, e)
    return "cnl::scaled_integer<%s, cnl::power<%d, %d>>" % (rep_cpp, e, radix)


OPS = {"add": "+", "sub": "-", "mul": "*"}


def fits(v, t):
    return X.And(v >= tmin(t), v <= tmax(t))


def mk_binary(name, RL, E1, RR, E2, radix, opn, builtin_rhs=False):
    o = OPS[opn]
    PL, PR = promote(RL), promote(RR)
    RES = usual(PL, PR)
    ret = RES
    decl = "using {n}_L = %s;\nusing {n}_R = %s;\n" % (sc(cpp(RL), E1, radix), cpp(RR) if builtin_rhs else sc(cpp(RR), E2, radix))
    decl += "using {n}_Res = decltype(std::declval<{n}_L>() %s std::declval<{n}_R>());\n" % o
    rhs = "b" if builtin_rhs else "cnl::_impl::from_rep<{n}_R>(b)"
    body = ("    auto r = cnl::_impl::from_rep<{n}_L>(a) %s %s;\n"
            "    static_assert(std::is_same_v<decltype(r), {n}_Res>);\n"
            "    return static_cast<%s>(cnl::unwrap(r));") % (o, rhs, cpp(ret))
    consts = {"exp": "cnl::_impl::tag_of_t<{n}_Res>::exponent", "radix": "cnl::_impl::tag_of_t<{n}_Res>::radix",
              "digits": "cnl::digits_v<cnl::_impl::rep_of_t<{n}_Res>>",
              "sgn": "cnl::numbers::signedness_v<cnl::_impl::rep_of_t<{n}_Res>>",
              "resbits": "sizeof(cnl::_impl::rep_of_t<{n}_Res>) * 8"}
    if opn == "mul":
        eres = E1 + E2
        sl = sr = 0
    else:
        eres = min(E1, E2)
        sl, sr = E1 - eres, E2 - eres
    ml, mr = radix ** sl, radix ** sr

    def bounds(env):
        d = env.c["digits"]
        return (-(1 << d) if env.c["sgn"] else 0), (1 << d) - 1

    def exact(env):
        a, b = env.a["a"], env.a["b"]
        if opn == "mul":
            return a * b
        x, y = a * ml, b * mr
        return x + y if opn == "add" else x - y

    def pre(env):
        a, b = env.a["a"], env.a["b"]
        lo, hi = bounds(env)
        e = exact(env)
        return X.And(fits(a * ml, PL), fits(b * mr, PR), e >= lo, e <= hi)

    def claims(env, path):
        if path.kind != "RET":
            return [("unexpected-outcome", False)]
        cl = [("result-exponent", env.c["exp"] == eres), ("result-radix", env.c["radix"] == radix),
              ("result-rep-is-promoted", env.c["resbits"] == bits(RES) and env.c["sgn"] == (1 if signed(RES) else 0)),
              ("exact-value", X.eq(env.ret(path), exact(env)))]
        return cl
    big = (opn == "mul" and bits(RL) + bits(RR) > 32) or (radix == 10 and max(sl, sr) > 2 and max(bits(PL), bits(PR)) > 32)
    mode = "int" if big else "bv"
    return Kernel(name, [("a", RL), ("b", RR)], ret, body.replace("{n}", name), decls=decl.replace("{n}", name),
                  consts={k: v.replace("{n}", name) for k, v in consts.items()}, mode=mode,
                  W=max(bits(PL) + bits(PR) + 8, bits(RES) + 8) if opn == "mul" else (max(bits(PL), bits(PR)) + [1, 4, 7, 10, 14][min(4, max(sl, sr))] * (1 if radix == 10 else 0) + (max(sl, sr) if radix == 2 else 0) + 8),
                  alt_modes=("bv",) if mode == "int" else ("int",), pre=pre, claims=claims,
                  desc="%s:%d %s %s:%d radix %d%s" % (RL, E1, o, RR, E2, radix, " (built-in rhs)" if builtin_rhs else ""),
                  tags={"op": opn, "L": RL, "R": RR, "E1": E1, "E2": E2, "radix": radix})


def mk_unary(name, RL, E1, radix):
    PL = promote(RL)
    ret = PL
    decl = "using {n}_L = %s;\nusing {n}_Res = decltype(-std::declval<{n}_L>());\n" % sc(cpp(RL), E1, radix)
    body = "    auto r = -cnl::_impl::from_rep<{n}_L>(a);\n    return static_cast<%s>(cnl::unwrap(r));" % cpp(ret)
    consts = {"exp": "cnl::_impl::tag_of_t<{n}_Res>::exponent",
              "digits": "cnl::digits_v<cnl::_impl::rep_of_t<{n}_Res>>",
              "sgn": "cnl::numbers::signedness_v<cnl::_impl::rep_of_t<{n}_Res>>"}

    def pre(env):
        d = env.c["digits"]
        lo, hi = (-(1 << d) if env.c["sgn"] else 0), (1 << d) - 1
        e = -env.a["a"]
        return X.And(e >= lo, e <= hi)

    def claims(env, path):
        if path.kind != "RET":
            return [("unexpected-outcome", False)]
        return [("result-exponent", env.c["exp"] == E1), ("exact-value", X.eq(env.ret(path), -env.a["a"]))]
    return Kernel(name, [("a", RL)], ret, body.replace("{n}", name), decls=decl.replace("{n}", name),
                  consts={k: v.replace("{n}", name) for k, v in consts.items()}, mode="bv", W=136, pre=pre,
                  claims=claims, desc="-%s:%d radix %d" % (RL, E1, radix), tags={"op": "neg", "L": RL, "E1": E1})


def mk_wrapped(name, kind, D1, E1, D2, E2, opn):
    """elastic_integer / rounding_integer representations"""
    o = OPS[opn]
    if kind == "elastic":
        TL = "cnl::elastic_integer<%d>" % D1
        TR = "cnl::elastic_integer<%d>" % D2
    else:
        TL = "cnl::rounding_integer<std::int%d_t, cnl::nearest_rounding_tag>" % D1
        TR = "cnl::rounding_integer<std::int%d_t, cnl::nearest_rounding_tag>" % D2
    decl = "using {n}_L = %s;\nusing {n}_R = %s;\n" % (sc(TL, E1), sc(TR, E2))
    decl += "using {n}_Res = decltype(std::declval<{n}_L>() %s std::declval<{n}_R>());\n" % o
    if kind == "elastic":
        rd = D1 + D2 if opn == "mul" else max(D1 + (E1 - min(E1, E2)), D2 + (E2 - min(E1, E2))) + 1
        wret = "i64" if rd <= 63 else "i128"
    else:
        wret = usual(promote("i%d" % D1), promote("i%d" % D2))
    body = ("    auto r = cnl::wrap<{n}_L>(a) %s cnl::wrap<{n}_R>(b);\n"
            "    return static_cast<%s>(cnl::unwrap(r));") % (o, cpp(wret))
    consts = {"exp": "cnl::_impl::tag_of_t<{n}_Res>::exponent"}
    if opn == "mul":
        eres, sl, sr = E1 + E2, 0, 0
    else:
        eres = min(E1, E2)
        sl, sr = E1 - eres, E2 - eres
    if kind == "elastic":
        at = "i32" if D1 <= 31 else "i64"
        bt = "i32" if D2 <= 31 else "i64"
    else:
        at, bt = "i%d" % D1, "i%d" % D2

    def exact(env):
        a, b = env.a["a"], env.a["b"]
        if opn == "mul":
            return a * b
        x, y = a * (1 << sl), b * (1 << sr)
        return x + y if opn == "add" else x - y

    def pre(env):
        a, b = env.a["a"], env.a["b"]
        if kind == "elastic":
            return X.And(a >= -((1 << D1) - 1), a <= (1 << D1) - 1, b >= -((1 << D2) - 1), b <= (1 << D2) - 1)
        PL, PR = promote(at), promote(bt)
        e = exact(env)
        R = usual(PL, PR)
        return X.And(fits(a * (1 << sl), PL), fits(b * (1 << sr), PR), fits(e, R))

    def claims(env, path):
        if path.kind != "RET":
            return [("unexpected-outcome", False)]
        return [("result-exponent", env.c["exp"] == eres), ("exact-value", X.eq(env.ret(path), exact(env)))]
    big = opn == "mul" and D1 + D2 > 20
    return Kernel(name, [("a", at), ("b", bt)], wret, body.replace("{n}", name), decls=decl.replace("{n}", name),
                  consts={k: v.replace("{n}", name) for k, v in consts.items()}, mode="int" if big else "bv",
                  W=max(bits(at) + bits(bt) + 8, bits(wret) + 8) if opn == "mul" else (max(bits(at) + sl, bits(bt) + sr, bits(wret)) + 8),
                  alt_modes=("bv",) if big else ("int",), pre=pre, claims=claims,
                  desc="%s<%d>:%d %s %s<%d>:%d" % (kind, D1, E1, o, kind, D2, E2),
                  tags={"op": opn, "rep": kind, "E1": E1, "E2": E2})


SHIFTS = [0, 1, 3, 8, 15, 16, 30, 31, 33, 62]
ORIGINS = [-70, -33, -8, 0, 5, 40]


def kernels(opts):
    tier = opts["tier"]
    reps = I8 if tier == "quick" else I128
    import random
    rng = random.Random("c01/%s/%s" % (opts["seed"], tier))
    specs = []
    for RL in reps:
        for RR in reps:
            PL, PR = promote(RL), promote(RR)
            for opn in OPS:
                for side in (0, 1):
                    P = PL if side == 0 else PR
                    room = bits(P) - (1 if signed(P) else 0)  # CNL static_asserts shift < digits
                    shs = [s_ for s_ in SHIFTS if s_ < room] + [room - 1] + [rng.randrange(0, room) for _ in range(6)]
                    for sh in sorted(set(shs)):
                        if sh == 0 and side:
                            continue
                        if opn == "mul":
                            E1 = rng.choice(ORIGINS + [rng.randint(-70, 70)])
                            lo2, hi2 = max(-70, -70 - E1), min(70, 70 - E1)
                            E2 = rng.choice([lo2, hi2, 0, rng.randint(lo2, hi2)])
                            specs.append(("b", RL, E1, RR, E2, 2, opn))
                            continue
                        for org in (rng.choice(ORIGINS), rng.randint(-70, 70 - sh), rng.choice([-70, 70 - sh])):
                            lo_e, hi_e = org, org + sh
                            if hi_e > 70 or lo_e < -70:
                                continue
                            E1, E2 = (hi_e, lo_e) if side == 0 else (lo_e, hi_e)
                            specs.append(("b", RL, E1, RR, E2, 2, opn))
            for opn in OPS:
                for (E1, E2) in ((0, 0), (-2, 0), (0, -3), (1, -1), (-4, -2), (3, 0)):
                    specs.append(("b", RL, E1, RR, E2, 10, opn))
                specs.append(("bi", RL, -5, RR, 0, 2, opn))
                specs.append(("bi", RL, 3, RR, 0, 2, opn))
        for E1 in (-70, -8, 0, 9, 70):
            specs.append(("u", RL, E1, 2))
        specs.append(("u", RL, -2, 10))
    if tier == "quick":
        frac = 0.25
        specs = seeded_subset(specs, frac, opts["seed"], "c01")
    else:
        specs = seeded_subset(specs, 0.35, opts["seed"], "c01t")
    wr = []
    for kind, Ds in (("elastic", [(7, 7), (15, 8), (31, 16), (24, 31), (31, 31), (40, 20)]), ("rounding", [(8, 8), (16, 32), (32, 32), (64, 32)])):
        for (D1, D2) in Ds:
            for opn in OPS:
                for (E1, E2) in ((0, 0), (-4, -9), (3, -2), (-8, 8)):
                    wr.append((kind, D1, E1, D2, E2, opn))
    if tier == "quick":
        wr = seeded_subset(wr, 0.35, opts["seed"], "c01w")
    ks = []
    for s in specs:
        n = "K%d" % len(ks)
        if s[0] == "b":
            ks.append(mk_binary(n, *s[1:]))
        elif s[0] == "bi":
            ks.append(mk_binary(n, *s[1:], builtin_rhs=True))
        else:
            ks.append(mk_unary(n, *s[1:]))
    for w in wr:
        ks.append(mk_wrapped("K%d" % len(ks), *w))
    return ks
