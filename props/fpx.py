"""floating-point oracle helpers (z3 FP theory); wide format (15,113) is exact for every value used here"""
import z3
from vlib import core, symex

WIDE = z3.FPSort(15, 113)
RNE, RTZ, RNA, RTN, RTP = z3.RNE(), z3.RTZ(), z3.RNA(), z3.RTN(), z3.RTP()


def wide(x):
    return z3.fpFPToFP(RNE, x, WIDE)


def pow2(k):
    return z3.FPVal(2.0 ** k, WIDE)


def scale(w, k):
    return w if k == 0 else z3.fpMul(RNE, w, pow2(k))


def const(v):
    """exact wide constant of a python int |v| < 2^113"""
    return z3.fpSignedToFP(RNE, z3.BitVecVal(v, 136), WIDE)


def finite(x):
    return z3.Not(z3.Or(z3.fpIsNaN(x), z3.fpIsInf(x)))


def in_range(t, lo, hi):
    return z3.And(z3.fpGEQ(t, const(lo)), z3.fpLEQ(t, const(hi)))


def to_int(t, nbits):
    return z3.fpToSBV(RTZ, t, z3.BitVecSort(nbits))


def ret_bv(env, path, ctype, nbits):
    """kernel integer result as a signed bit-vector of nbits (symbolic or concrete path)"""
    r = env.ret_raw(path)
    if getattr(path, "concrete", False):
        return z3.BitVecVal(r, nbits)
    return env.dom.exact(r, core.signed(ctype), nbits)


def arg_bv(env, name, ctype, nbits, concrete):
    if concrete:
        return z3.BitVecVal(env.a[name], nbits)
    return env.dom.exact(env.raw[name], core.signed(ctype), nbits)


def fp_same(a, b):
    return z3.Or(a == b, z3.And(z3.fpIsNaN(a), z3.fpIsNaN(b)))


def inexact_add(x, c, fmt=None):
    """the addition x + c (c a python float or an FP term of x's format), performed in format fmt (default: x's own),
    is not exact"""
    srt = x.sort() if fmt is None else fmt
    xs = x if fmt is None else z3.fpFPToFP(RNE, x, srt)
    cs = c if isinstance(c, z3.ExprRef) else z3.FPVal(c, srt)
    if isinstance(c, z3.ExprRef) and fmt is not None:
        cs = z3.fpFPToFP(RNE, c, srt)
    s_fmt = z3.fpAdd(RNE, xs, cs)
    s_exact = z3.fpAdd(RNE, wide(xs), wide(cs))
    return z3.Not(wide(s_fmt) == s_exact)


X87 = z3.FPSort(15, 64)


def signed_half(x, h):
    """+h for x >= 0 else -h, as a term of x's format"""
    srt = x.sort()
    return z3.If(z3.fpGEQ(x, z3.FPVal(0.0, srt)), z3.FPVal(h, srt), z3.FPVal(-h, srt))


def not_integral_at(x, E):
    w = scale(wide(x), -E)
    return z3.Not(z3.fpRoundToIntegral(RTZ, w) == w)


def negative(x):
    return z3.fpLT(x, z3.FPVal(0.0, x.sort()))
