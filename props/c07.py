"""C07 - checked arithmetic is total: no undefined behaviour, no internal 'unreachable' on any operand."""
import random
from .common import *
from . import c06
from vlib import ex as X

EXPLANATION = ("C07: the C06 kernels (tagged operations under saturated/throwing/trapping, both compiler views) plus "
               "static_integer / static_number forms are compiled with UBSan-trap so that every source-level undefined "
               "operation is an explicit trap block; the obligation per such block (and per abort with a message other "
               "than an overflow message, i.e. CNL_ASSERT / 'CNL internal error') is that no operand value with a "
               "non-zero divisor and non-negative shift count reaches it.  Debug- and release-contract (NDEBUG) builds.")
BOUNDS = {k: v + "; plus %, >>, &, |, ^ under the three checked tags for 8 operand type pairs (operate and overflow_integer forms), NDEBUG twins of a sample, static_integer forms" for k, v in c06.BOUNDS.items()}
ASSUMPTIONS = ["divisor != 0 and shift count >= 0 (the statement's own restrictions)"]

STAT = {"sat": "cnl::saturated_overflow_tag", "thr": "cnl::_impl::throwing_overflow_tag", "trp": "cnl::trapping_overflow_tag"}


def mk_static(name, D1, D2, opn, tag, ndebug):
    o = {"add": "+", "sub": "-", "mul": "*", "div": "/"}[opn]
    T1 = "cnl::static_integer<%d, cnl::nearest_rounding_tag, %s>" % (D1, STAT[tag])
    T2 = "cnl::static_integer<%d, cnl::nearest_rounding_tag, %s>" % (D2, STAT[tag])
    body = ("    auto r = verif::mk<%s>(a) %s verif::mk<%s>(b);\n"
            "    return static_cast<std::int64_t>(cnl::unwrap(r));") % (T1, o, T2)

    def pre(env):
        a, b = env.a["a"], env.a["b"]
        c = [a >= -((1 << D1) - 1), a <= (1 << D1) - 1, b >= -((1 << D2) - 1), b <= (1 << D2) - 1]
        if opn == "div":
            c.append(X.ne(b, 0))
        return X.And(*c)

    def claims(env, path):
        if path.kind == "TRAP" and path.payload not in ("positive overflow", "negative overflow"):
            return [("no-internal-error", False)]
        return []
    return Kernel(name, [("a", "i32"), ("b", "i32")], "i64", body, mode="int" if opn in ("mul", "div") else "bv", W=80,
                  alt_modes=("bv",), views=("gcc", "clang"), pre=pre, claims=claims, ndebug=ndebug,
                  desc="static_integer<%d> %s static_integer<%d> [%s]%s" % (D1, o, D2, tag, " NDEBUG" if ndebug else ""),
                  tags={"op": opn, "tag": tag, "form": "static_integer", "ndebug": ndebug})


OTHER = {"rem": ("cnl::_impl::modulo_op", "%"), "shr": ("cnl::_impl::shift_right_op", ">>"),
         "and": ("cnl::_impl::bitwise_and_op", "&"), "or": ("cnl::_impl::bitwise_or_op", "|"), "xor": ("cnl::_impl::bitwise_xor_op", "^")}


def mk_other(name, opn, L, R, tag, form, ndebug=False):
    """operators that C06's outcome table does not cover (their exact result always fits) but that C07's
    'operations performed under the checked tags' does: %, >>, &, |, ^ -- only the defined-behaviour claims apply"""
    opt, o = OTHER[opn]
    RES = promote(L) if opn == "shr" else usual(promote(L), promote(R))
    T = c06.TAGS[tag]
    if form == "operate":
        body = "    return cnl::_impl::operate<%s, %s>{}(a, b);" % (opt, T)
    else:
        body = ("    auto r = cnl::overflow_integer<%s, %s>{a} %s cnl::overflow_integer<%s, %s>{b};\n"
                "    return cnl::unwrap(r);") % (cpp(L), T, o, cpp(R), T)

    def pre(env):
        if opn == "rem":
            return X.ne(env.a["b"], 0)
        if opn == "shr":
            return env.a["b"] >= 0
        return True
    return Kernel(name, [("a", L), ("b", R)], RES, body, mode="bv", W=max(bits(L), bits(R), bits(RES)) + 8,
                  views=("gcc", "clang"), pre=pre, claims=c06.mk_claims(tag, None, RES, "C07"), ndebug=ndebug,
                  desc="%s %s %s [%s] (%s)%s" % (L, o, R, tag, form, " NDEBUG" if ndebug else ""),
                  tags={"op": opn, "L": L, "R": R, "tag": tag, "form": form, "res": RES, "Ls": signed(L), "Rs": signed(R),
                        "ndebug": ndebug})


def kernels(opts):
    specs = c06.specs_for(opts, "C07")
    ks = c06.build(specs, "C07")
    rng = random.Random("c07/%s" % opts["seed"])
    # release-contract (NDEBUG) twins of a sample: CNL_ASSERT/unreachable become __builtin_unreachable -> ubsantrap
    nd = c06.build(rng.sample(specs, min(len(specs), 60 if opts["tier"] == "quick" else 400)), "C07")
    for i, k in enumerate(nd):
        k.name = "N%d" % i
        k.ndebug = True
        k.desc += " NDEBUG"
        k.tags = dict(k.tags, ndebug=True)
    ks += nd
    i = 0
    for tag in STAT:
        for (D1, D2) in ((7, 7), (15, 16), (31, 31), (24, 8)):
            for opn in ("add", "sub", "mul", "div"):
                for ndebug in (False, True):
                    if opts["tier"] == "quick" and rng.random() < 0.5:
                        continue
                    ks.append(mk_static("S%d" % i, D1, D2, opn, tag, ndebug))
                    i += 1
    # %, >>, &, |, ^ under the checked tags
    j = 0
    pairs = [("i32", "i32"), ("i64", "i64"), ("i32", "i8"), ("i64", "i32"), ("u32", "u32"), ("i16", "u8"), ("u64", "i32"), ("i8", "i8")]
    for tag in STAT:
        for opn in OTHER:
            for (L, R) in pairs:
                if opts["tier"] == "quick" and opn in ("and", "or", "xor") and (L, R) not in (("i32", "i32"), ("u64", "i32")):
                    continue
                for form in ("operate", "overflow_integer"):
                    if form == "overflow_integer" and opts["tier"] == "quick" and (L, R) not in (("i32", "i32"), ("i64", "i32")):
                        continue
                    ks.append(mk_other("O%d" % j, opn, L, R, tag, form))
                    j += 1
    return ks
