"""C05 - elastic_integer arithmetic never overflows and stays within its declared digits."""
import random
from .common import *
from vlib import ex as X

EXPLANATION = ("C05: for each (LhsDigits, LhsSigned, RhsDigits, RhsSigned, Narrowest, operator) instantiation the "
               "operator is applied to operands constrained only by their declared range +/-(2^D-1); the result is "
               "proved equal to the exact integer result and to lie in the range numeric_limits reports for the result "
               "type (emitted constants: digits, signedness, max, lowest).")
BOUNDS = {"quick": "digits {1,2,7,8,15,16,24,31,32,33,48,63} x signedness x narrowest {int, int8, int64 / unsigned} x ops {+,-,*,/,%,unary -,<<k,>>k}; results up to 126 digits (128-bit storage); seeded sample; elastic_scaled_integer for a sample",
          "thorough": "full product; wide_integer-backed results (>127 digits) for + and - only"}

OPS = {"add": "+", "sub": "-", "mul": "*", "div": "/", "rem": "%"}


def el(D, S, N):
    nt = {"int": ("int", "unsigned"), "i8": ("std::int8_t", "std::uint8_t"), "i64": ("std::int64_t", "std::uint64_t")}[N]
    return "cnl::elastic_integer<%d, %s>" % (D, nt[0] if S else nt[1])


def rng_of(v, D, S):
    return X.And(v >= (-((1 << D) - 1) if S else 0), v <= (1 << D) - 1)


def common_consts(res):
    return {"digits": "cnl::digits_v<%s>" % res,
            "sgn": "cnl::numbers::signedness_v<%s>" % res,
            "repbits": "sizeof(cnl::_impl::rep_of_t<%s>) * 8" % res,
            "max": "cnl::unwrap(std::numeric_limits<%s>::max())" % res,
            "lowest": "cnl::unwrap(std::numeric_limits<%s>::lowest())" % res}


def limits_claims(env, r):
    d, s = env.c["digits"], env.c["sgn"]
    hi = (1 << d) - 1
    lo = -hi if s else 0
    return [("limits-max", env.c["max"] == hi), ("limits-lowest", env.c["lowest"] == lo),
            ("within-declared-digits", X.And(r >= lo, r <= hi))]


def sign_splits(env):
    a, b = env.a["a"], env.a["b"]
    return [X.And(a >= 0, b > 0), X.And(a >= 0, b < 0), X.And(a < 0, b > 0), X.And(a < 0, b < 0)]


def mk_bin(name, D1, S1, N1, D2, S2, N2, opn, scaled=None):
    o = OPS[opn]
    TL, TR = el(D1, S1, N1), el(D2, S2, N2)
    if scaled:
        TL = "cnl::scaled_integer<%s, cnl::power<%d>>" % (TL, scaled[0])
        TR = "cnl::scaled_integer<%s, cnl::power<%d>>" % (TR, scaled[1])
    at = "i64" if S1 else "u64"
    bt = "i64" if S2 else "u64"
    rd = D1 + D2 + 2 + (abs(scaled[0] - scaled[1]) if scaled else 0)
    ret = "i64"
    decl = "using {n}_L = %s;\nusing {n}_R = %s;\nusing {n}_Res = decltype(std::declval<{n}_L>() %s std::declval<{n}_R>());\n" % (TL, TR, o)
    decl += "using {n}_ResRep = %s;\n" % ("cnl::_impl::rep_of_t<{n}_Res>" if scaled else "{n}_Res")
    body = ("    auto r = verif::mk<{n}_L>(a) %s verif::mk<{n}_R>(b);\n"
            "    return static_cast<%s>(cnl::unwrap(r));") % (o, cpp(ret))
    consts = common_consts("{n}_ResRep")
    sl = sr = 0
    if scaled and opn in ("add", "sub"):
        e = min(scaled)
        sl, sr = scaled[0] - e, scaled[1] - e

    def exact(env):
        a, b = env.a["a"] * (1 << sl), env.a["b"] * (1 << sr)
        return {"add": lambda: a + b, "sub": lambda: a - b, "mul": lambda: a * b, "div": lambda: X.tdiv(a, b),
                "rem": lambda: X.trem(a, b)}[opn]()

    def pre(env):
        c = [rng_of(env.a["a"], D1, S1), rng_of(env.a["b"], D2, S2)]
        if opn in ("div", "rem"):
            c.append(X.ne(env.a["b"], 0))
        return X.And(*c)

    def claims(env, path):
        if path.kind != "RET":
            return [("unexpected-outcome", False)]
        r = env.ret(path)
        return [("exact-value", X.eq(r, exact(env)))] + limits_claims(env, r)
    big = opn in ("mul", "div", "rem") and D1 + D2 > 20
    return Kernel(name, [("a", at), ("b", bt)], ret, body.replace("{n}", name), decls=decl.replace("{n}", name),
                  consts={k: v.replace("{n}", name) for k, v in consts.items()}, mode="int" if big else "bv",
                  W=max(rd, 64, bits(ret)) + 8, alt_modes=("bv",) if big else ("int",), pre=pre, claims=claims,
                  splits=sign_splits,
                  desc="elastic<%d,%s,%s>%s %s elastic<%d,%s,%s>%s" % (D1, "s" if S1 else "u", N1, (":%d" % scaled[0]) if scaled else "", o,
                                                                   D2, "s" if S2 else "u", N2, (":%d" % scaled[1]) if scaled else ""),
                  tags={"op": opn, "D1": D1, "D2": D2, "S1": S1, "S2": S2})


def mk_un(name, D, S, N, kind, k=0):
    T = el(D, S, N)
    at = "i64" if S else "u64"
    expr = {"neg": "-x", "shl": "x << cnl::constant<%d>{}" % k, "shr": "x >> cnl::constant<%d>{}" % k}[kind]
    rd = D + k + 2
    ret = "i64" if rd <= 63 else "i128"
    if D > 64:
        at = "i128" if S else "u128"
    decl = "using {n}_L = %s;\nusing {n}_Res = decltype(%s);\n" % (T, expr.replace("x", "std::declval<{n}_L>()"))
    body = "    auto x = verif::mk<{n}_L>(a);\n    auto r = %s;\n    return static_cast<%s>(cnl::unwrap(r));" % (expr, cpp(ret))

    def exact(env):
        a = env.a["a"]
        return {"neg": lambda: -a, "shl": lambda: a * (1 << k), "shr": lambda: X.shr_floor(a, k)}[kind]()

    def pre(env):
        return rng_of(env.a["a"], D, S)

    def claims(env, path):
        if path.kind != "RET":
            return [("unexpected-outcome", False)]
        r = env.ret(path)
        return [("exact-value", X.eq(r, exact(env)))] + limits_claims(env, r)
    return Kernel(name, [("a", at)], ret, body.replace("{n}", name), decls=decl.replace("{n}", name),
                  consts={k_: v.replace("{n}", name) for k_, v in common_consts("{n}_Res").items()}, mode="bv",
                  W=max(rd, 64, bits(ret)) + 8, pre=pre, claims=claims,
                  desc="%s elastic<%d,%s,%s> k=%d" % (kind, D, "s" if S else "u", N, k), tags={"op": kind, "D1": D, "S1": S, "k": k})


DIG = [1, 2, 7, 8, 15, 16, 24, 31, 32, 33, 48, 63]


def kernels(opts):
    tier = opts["tier"]
    rng = random.Random("c05/%s/%s" % (opts["seed"], tier))
    specs = []
    for D1 in DIG:
        for D2 in DIG:
            for S1 in (1, 0):
                for S2 in (1, 0):
                    for opn in OPS:
                        N1 = rng.choice(["int", "int", "i8", "i64"])
                        N2 = rng.choice(["int", "int", "i8", "i64"])
                        if (D1 + D2 if opn == "mul" else max(D1, D2) + 1) > 63:
                            continue  # CNL refuses (static_assert) results wider than intmax_t for native storage
                        specs.append(("b", D1, S1, N1, D2, S2, N2, opn))
    un = []
    for D in DIG + [64, 100, 127]:
        for S in (1, 0):
            if D > 63 and S and D > 126:
                continue
            N = rng.choice(["int", "i8", "i64"])
            un.append(("u", D, S, N, "neg", 0))
            if D <= 63:
                for k in (1, 7, rng.randint(2, 40)):
                    if D + k <= 63:
                        un.append(("u", D, S, N, "shl", k))
                    if min(k, D - 1) >= 1:
                        un.append(("u", D, S, N, "shr", min(k, D - 1)))  # (a 0-digit result type is degenerate)
    sc = []
    for (D1, D2) in ((7, 7), (15, 8), (31, 16), (24, 31), (31, 31)):
        for opn in OPS:
            for S1, S2 in ((1, 1), (1, 0), (0, 0)):
                e1 = rng.choice([-16, -8, -1, 0, 3])
                e2 = e1 + rng.choice([-12, -5, 0, 1, 7])
                sc.append(("b", D1, S1, "int", D2, S2, "int", opn, (e1, e2)))
    frac = 0.12 if tier == "quick" else 0.6
    # unary operators are few and cheap: negation of every (digits, signedness) always, the shifts sampled
    un_neg = [u for u in un if u[4] == "neg"]
    un_sh = [u for u in un if u[4] != "neg"]
    specs = (seeded_subset(specs, frac, opts["seed"], "c05") + seeded_subset(sc, 0.4 if tier == "quick" else 1.0, opts["seed"], "c05s")
             + un_neg + seeded_subset(un_sh, 0.25 if tier == "quick" else 1.0, opts["seed"], "c05u"))
    ks = []
    for s in specs:
        n = "K%d" % len(ks)
        ks.append(mk_bin(n, *s[1:]) if s[0] == "b" else mk_un(n, *s[1:]))
    return ks
