"""C02 - division, remainder and quotient() obey the integer-division contract."""
import random
from .common import *
from .c01 import sc
from vlib import ex as X

EXPLANATION = ("C02: a/b and a%b on scaled_integer pairs are executed symbolically and proved to be the truncating "
               "quotient and the remainder of the representations (hence (a/b)*b + a%b == a, |rem| < |b|, sign of the "
               "dividend) with result exponents exp(a)-exp(b) and exp(a) read from emitted constants; quotient(a,b) is "
               "proved to be the true quotient truncated toward zero at the result resolution, in a type no input can "
               "overflow (no undefined operation reachable, value equal to the exact integer).")
BOUNDS = {"quick": "reps i8..u64 (pairs whose common type preserves both values), exponent pairs from {-33,-16,-8,-1,0,1,8,16,33}, radix 2 and 10; quotient() for 8..32-bit reps and elastic_scaled_integer; most-negative / -1 excluded; INT (QF_NIA) encoding with sign case split",
          "thorough": "more exponent pairs, 64-bit quotient (128-bit intermediate)"}

EQ = [-33, -16, -8, -1, 0, 1, 8, 16, 33]


def sign_splits(env):
    a, b = env.a["a"], env.a["b"]
    return [X.And(a >= 0, b > 0), X.And(a >= 0, b < 0), X.And(a < 0, b > 0), X.And(a < 0, b < 0)]


def mk_divrem(name, RL, E1, RR, E2, radix, opn):
    o = "/" if opn == "div" else "%"
    PL, PR = promote(RL), promote(RR)
    RES = usual(PL, PR)
    decl = "using {n}_L = %s;\nusing {n}_R = %s;\nusing {n}_Res = decltype(std::declval<{n}_L>() %s std::declval<{n}_R>());\n" % (
        sc(cpp(RL), E1, radix), sc(cpp(RR), E2, radix), o)
    body = ("    auto r = cnl::_impl::from_rep<{n}_L>(a) %s cnl::_impl::from_rep<{n}_R>(b);\n"
            "    return static_cast<%s>(cnl::unwrap(r));") % (o, cpp(RES))
    consts = {"exp": "cnl::_impl::tag_of_t<{n}_Res>::exponent", "radix": "cnl::_impl::tag_of_t<{n}_Res>::radix"}
    eres = E1 - E2 if opn == "div" else E1

    def pre(env):
        a, b = env.a["a"], env.a["b"]
        c = [X.ne(b, 0)]
        if signed(RES):
            c.append(X.Not(X.And(X.eq(a, tmin(RES)), X.eq(b, -1))))
        return X.And(*c)

    def claims(env, path):
        if path.kind != "RET":
            return [("unexpected-outcome", False)]
        a, b = env.a["a"], env.a["b"]
        r = env.ret(path)
        cl = [("result-exponent", env.c["exp"] == eres), ("result-radix", env.c["radix"] == radix)]
        if opn == "div":
            cl.append(("truncating-quotient", X.eq(r, X.tdiv(a, b))))
        else:
            cl.append(("remainder", X.eq(r, X.trem(a, b))))
            cl.append(("remainder-magnitude", X.absv(r) < X.absv(b)))
            cl.append(("remainder-sign", X.Or(X.eq(r, 0), X.Iff(r < 0, a < 0))))
        return cl
    small = max(bits(RL), bits(RR)) <= 8
    return Kernel(name, [("a", RL), ("b", RR)], RES, body.replace("{n}", name), decls=decl.replace("{n}", name),
                  consts={k: v.replace("{n}", name) for k, v in consts.items()}, mode="bv" if small else "int", W=48,
                  alt_modes=() if small else ("bv",), pre=pre, claims=claims, splits=sign_splits,
                  desc="%s:%d %s %s:%d radix %d" % (RL, E1, o, RR, E2, radix), tags={"op": opn, "L": RL, "R": RR})


def mk_quotient(name, TL, at, D1, E1, TR, bt, D2, E2, desc, qtags=None):
    decl = "using {n}_L = %s;\nusing {n}_R = %s;\nusing {n}_Res = decltype(cnl::quotient(std::declval<{n}_L>(), std::declval<{n}_R>()));\n" % (TL, TR)
    body = ("    auto r = cnl::quotient(verif::mk<{n}_L>(a), verif::mk<{n}_R>(b));\n"
            "    return static_cast<__int128>(cnl::unwrap(r));")
    consts = {"exp": "cnl::_impl::tag_of_t<{n}_Res>::exponent", "digits": "cnl::digits_v<cnl::_impl::rep_of_t<{n}_Res>>"}

    def pre(env):
        a, b = env.a["a"], env.a["b"]
        c = [X.ne(b, 0)]
        if D1 is not None:
            c += [a >= -((1 << D1) - 1), a <= (1 << D1) - 1]
        if D2 is not None:
            c += [b >= -((1 << D2) - 1), b <= (1 << D2) - 1]
        return X.And(*c)

    def claims(env, path):
        if path.kind != "RET":
            return [("unexpected-outcome", False)]
        a, b = env.a["a"], env.a["b"]
        s = E1 - E2 - env.c["exp"]
        ex_q = X.tdiv(a * (1 << s), b) if s >= 0 else X.tdiv(a, b * (1 << (-s)))
        r = env.ret(path)
        d = env.c["digits"]
        return [("truncated-true-quotient", X.eq(r, ex_q)),
                ("fits-result-digits", X.And(r >= -(1 << d), r <= (1 << d) - 1))]
    return Kernel(name, [("a", at), ("b", bt)], "i128", body.replace("{n}", name), decls=decl.replace("{n}", name),
                  consts={k: v.replace("{n}", name) for k, v in consts.items()}, mode="int", alt_modes=("bv",), W=136,
                  pre=pre, claims=claims, splits=sign_splits, desc=desc, tags=dict({"op": "quotient"}, **(qtags or {})))


def mk_elastic_divrem(name, D1, S1, E1, D2, S2, E2, opn):
    """a / b and a % b on elastic_scaled_integer operands (divisor not wider than the dividend: the operand narrowing
    of the elastic / and % operators is a C05 known finding)"""
    o = "/" if opn == "div" else "%"
    TL = "cnl::elastic_scaled_integer<%d, cnl::power<%d>, %s>" % (D1, E1, "int" if S1 else "unsigned")
    TR = "cnl::elastic_scaled_integer<%d, cnl::power<%d>, %s>" % (D2, E2, "int" if S2 else "unsigned")
    decl = "using {n}_Res = decltype(std::declval<%s>() %s std::declval<%s>());\n" % (TL, o, TR)
    body = ("    auto r = verif::mk<%s>(a) %s verif::mk<%s>(b);\n    return static_cast<std::int64_t>(cnl::unwrap(r));") % (TL, o, TR)
    consts = {"exp": "cnl::_impl::tag_of_t<{n}_Res>::exponent"}
    eres = E1 - E2 if opn == "div" else E1

    def pre(env):
        a, b = env.a["a"], env.a["b"]
        return X.And(X.ne(b, 0), a >= (-((1 << D1) - 1) if S1 else 0), a <= (1 << D1) - 1,
                     b >= (-((1 << D2) - 1) if S2 else 0), b <= (1 << D2) - 1)

    def claims(env, path):
        if path.kind != "RET":
            return [("unexpected-outcome", False)]
        a, b = env.a["a"], env.a["b"]
        r = env.ret(path)
        cl = [("result-exponent", env.c["exp"] == eres)]
        if opn == "div":
            cl.append(("truncating-quotient", X.eq(r, X.tdiv(a, b))))
        else:
            cl += [("remainder", X.eq(r, X.trem(a, b))), ("remainder-magnitude", X.absv(r) < X.absv(b)),
                   ("remainder-sign", X.Or(X.eq(r, 0), X.Iff(r < 0, a < 0)))]
        return cl
    return Kernel(name, [("a", "i32"), ("b", "i32")], "i64", body, decls=decl.replace("{n}", name),
                  consts={k: v.replace("{n}", name) for k, v in consts.items()}, mode="int", W=72, alt_modes=("bv",), pre=pre,
                  claims=claims, splits=sign_splits,
                  desc="elastic_scaled<%d,%d,%s> %s elastic_scaled<%d,%d,%s>" % (D1, E1, "s" if S1 else "u", o, D2, E2, "s" if S2 else "u"),
                  tags={"op": opn, "family": "elastic"})


def kernels(opts):
    tier = opts["tier"]
    rng = random.Random("c02/%s/%s" % (opts["seed"], tier))
    ks = []
    pairs = [(a, b) for a in I8 for b in I8 if signed(a) == signed(b) or signed(usual(promote(a), promote(b)))]
    chosen = pairs if tier != "quick" else rng.sample(pairs, 22)
    for (RL, RR) in chosen:
        for opn in ("div", "rem"):
            for _ in range(2 if tier == "quick" else 4):
                E1, E2 = rng.choice(EQ), rng.choice(EQ)
                if not -70 <= E1 - E2 <= 70:
                    continue
                ks.append(mk_divrem("K%d" % len(ks), RL, E1, RR, E2, 2, opn))
            ks.append(mk_divrem("K%d" % len(ks), RL, rng.choice([-2, 0, 1]), RR, rng.choice([-3, 0, 2]), 10, opn))
    qreps = ["i8", "u8", "i16", "u16", "i32", "u32"]
    for _ in range(14 if tier == "quick" else 60):
        RL, RR = rng.choice(qreps), rng.choice(qreps)
        E1, E2 = rng.choice([-16, -8, -1, 0, 4]), rng.choice([-16, -8, -1, 0, 4])
        ks.append(mk_quotient("K%d" % len(ks), sc(cpp(RL), E1), RL, None, E1, sc(cpp(RR), E2), RR, None, E2,
                              "quotient(%s:%d, %s:%d)" % (RL, E1, RR, E2),
                              {"mixed_unsigned": signed(RL) != signed(RR) and not signed(usual(promote(RL), promote(RR))), "Ls": signed(RL)}))
    for _ in range(8 if tier == "quick" else 30):
        D1, D2 = rng.choice([7, 15, 24, 31]), rng.choice([7, 15, 24, 31])
        E1, E2 = rng.choice([-16, -8, 0, 3]), rng.choice([-16, -8, 0, 3])
        ks.append(mk_quotient("K%d" % len(ks), "cnl::elastic_scaled_integer<%d, cnl::power<%d>>" % (D1, E1), "i32", D1, E1,
                              "cnl::elastic_scaled_integer<%d, cnl::power<%d>>" % (D2, E2), "i32", D2, E2,
                              "quotient(elastic_scaled<%d>:%d, elastic_scaled<%d>:%d)" % (D1, E1, D2, E2)))
    # elastic_scaled_integer / and % (always run): every signedness pairing, divisor digits <= dividend digits
    for (D1, E1, D2, E2) in ((8, -4, 4, -2), (15, 0, 7, -3), (24, -8, 24, -8)):
        for S1 in (1, 0):
            for S2 in (1, 0):
                for opn in ("div", "rem"):
                    ks.append(mk_elastic_divrem("K%d" % len(ks), D1, S1, E1, D2, S2, E2, opn))
    return ks
