"""C08 - integer division under a rounding mode returns the correctly rounded quotient."""
import random
from .common import *
from vlib import ex as X

EXPLANATION = ("C08: rounding_integer<Rep,Tag> division is executed symbolically for every (a, b != 0) whose correctly "
               "rounded quotient is representable and proved equal to the exact rational a/b rounded as the tag "
               "prescribes (integer oracle: nearest/ties away, nearest/ties to +inf, floor, truncation); the other "
               "operators under each rounding tag are proved equivalent to the built-in operator (paired kernels).")
BOUNDS = {"quick": "Rep in {i8,u8,i16,u16,i32,u32,i64,u64} x tags {nearest, tie_to_pos_inf, neg_inf, native}; mixed rep pairs for a sample; INT (QF_NIA) encoding, case split on operand signs",
          "thorough": "same with longer solver caps and all rep pairs"}

RT = {"nearest": "cnl::nearest_rounding_tag", "tiepos": "cnl::tie_to_pos_inf_rounding_tag",
      "neginf": "cnl::neg_inf_rounding_tag", "native": "cnl::native_rounding_tag"}


def rounded(tag, a, b):
    if tag == "native":
        return X.tdiv(a, b)
    if tag == "neginf":
        return X.fdiv(a, b)
    if tag == "nearest":
        q = X.fdiv(2 * X.absv(a) + X.absv(b), 2 * X.absv(b))
        return X.ite((a < 0) != (b < 0) if isinstance(a, int) and isinstance(b, int) else X.Or(X.And(a < 0, b > 0), X.And(a >= 0, b < 0)), -q, q)
    # tie to +inf: floor((2*a*s + |b|) / (2|b|)), s = sign(b)
    s_a = X.ite(b < 0, -a, a)
    return X.fdiv(2 * s_a + X.absv(b), 2 * X.absv(b))


def sign_splits(env):
    a, b = env.a["a"], env.a["b"]
    return [X.And(a >= 0, b > 0), X.And(a >= 0, b < 0), X.And(a < 0, b > 0), X.And(a < 0, b < 0)]


def mk_div(name, L, R, tag):
    RES = usual(promote(L), promote(R))
    T = RT[tag]
    body = ("    auto r = verif::mk<cnl::rounding_integer<%s, %s>>(a) / verif::mk<cnl::rounding_integer<%s, %s>>(b);\n"
            "    return static_cast<%s>(cnl::unwrap(r));") % (cpp(L), T, cpp(R), T, cpp(RES))
    consts = {"same": "std::is_same_v<decltype(cnl::unwrap(std::declval<cnl::rounding_integer<%s, %s>>() / std::declval<cnl::rounding_integer<%s, %s>>())), %s>" % (cpp(L), T, cpp(R), T, cpp(RES))}

    def exact(env):
        # the exact rational a/b of the VALUES, rounded; a negative quotient is simply not representable
        # in an unsigned result type and is excluded by the precondition (statement: "representable")
        a, b = env.a["a"], env.a["b"]
        if tag == "native" and not signed(RES):
            # "toward zero (the built-in behaviour)": the built-in operator converts both operands to the
            # unsigned result type first
            a = X.ite(a < 0, a + (1 << bits(RES)), a)
            b = X.ite(b < 0, b + (1 << bits(RES)), b)
        return rounded(tag, a, b)

    def pre(env):
        q = exact(env)
        return X.And(X.ne(env.a["b"], 0), q >= tmin(RES), q <= tmax(RES))

    def claims(env, path):
        if path.kind != "RET":
            return [("unexpected-outcome", False)]
        return [("result-type", env.c["same"] == 1), ("rounded-quotient", X.eq(env.ret(path), exact(env)))]
    small = max(bits(L), bits(R)) <= 8
    return Kernel(name, [("a", L), ("b", R)], RES, body, consts=consts, mode="bv" if small else "int", W=48,
                  alt_modes=() if small else ("bv",), pre=pre, claims=claims, splits=sign_splits,
                  desc="rounding_integer<%s,%s> / <%s>" % (L, tag, R),
                  tags={"op": "div", "L": L, "R": R, "tag": tag, "res": RES, "ress": signed(RES), "Ls": signed(L), "Rs": signed(R)})


def mk_other(name, L, tag, opn, o):
    """all other operators under a rounding tag behave like the built-in ones"""
    P = promote(L)
    T = RT[tag]
    body = ("    auto r = verif::mk<cnl::rounding_integer<%s, %s>>(a) %s verif::mk<cnl::rounding_integer<%s, %s>>(b);\n"
            "    return static_cast<%s>(cnl::unwrap(r));") % (cpp(L), T, o, cpp(L), T, cpp(P))
    ref = "    return static_cast<%s>(a %s b);" % (cpp(P), o)
    return Kernel(name, [("a", L), ("b", L)], P, body, ref_body=ref, mode="bv",
                  desc="rounding_integer<%s,%s> %s == built-in" % (L, tag, o), tags={"op": opn, "L": L, "tag": tag})


def kernels(opts):
    tier = opts["tier"]
    rng = random.Random("c08/%s/%s" % (opts["seed"], tier))
    ks = []
    for tag in RT:
        for L in I8:
            ks.append(mk_div("K%d" % len(ks), L, L, tag))
        pairs = [(a, b) for a in I8 for b in I8 if a != b]
        for (L, R) in rng.sample(pairs, 6 if tier == "quick" else 40):
            ks.append(mk_div("K%d" % len(ks), L, R, tag))
        for L in (rng.sample(I8, 3) if tier == "quick" else I8):
            for opn, o in (("add", "+"), ("sub", "-"), ("mul", "*"), ("rem", "%"), ("and", "&"), ("or", "|")):
                ks.append(mk_other("K%d" % len(ks), L, tag, opn, o))
    return ks
