"""Per-shard pipeline: build -> parse -> symbolic execution -> translator validation -> obligations ->
solver portfolio -> replay.  Runs inside a worker process; returns plain dict results."""
import os
import time
import json
import random
import subprocess
import tempfile
import traceback
import hashlib
import z3

from . import core, irparse, symex, ex
from .dom import IV, IntUnsupported, is_conc_bool, to_signed, mask
from .irparse import IRUnsupported

RNE = z3.RNE()


# ------------------------------------------------------------------------------ environments
class ConcPath:
    def __init__(self, kind, payload, ret=None, outs=None):
        self.kind = kind
        self.payload = payload
        self.retv = ret
        self.outs = outs or {}
        self.pc = []
        self.concrete = True


class Env:
    """what a spec sees: exact-domain arguments, compile-time constants, result accessors"""

    def __init__(self, kernel, consts, mode, W, dom=None):
        self.k = kernel
        self.c = consts
        self.mode = mode  # 'bv' | 'int' | 'py'
        self.W = W
        self.dom = dom
        self.a = {}
        self.raw = {}
        self.X = ex
        self.tags = kernel.tags

    def __getattr__(self, n):
        a = self.__dict__.get("a", {})
        if n in a:
            return a[n]
        raise AttributeError(n)

    def exact(self, iv, sgn):
        if self.mode == "py":
            return iv
        if not isinstance(iv, IV):  # bool
            if is_conc_bool(iv):
                v = 1 if iv else 0
                return z3.BitVecVal(v, self.W) if self.mode == "bv" else z3.IntVal(v)
            return z3.If(iv, self.exact(IV(8, c=1), False), self.exact(IV(8, c=0), False))
        if self.mode == "bv":
            return self.dom.exact(iv, sgn, (iv.bits + (0 if sgn else 1)) if self.W is None else self.W)
        return self.dom.exact(iv, sgn)

    def ret(self, path):
        """return value in the exact domain (ints) or as FP term"""
        if getattr(path, "concrete", False):
            return path.retv
        v = path.payload
        t = self.k.ret
        if core.CT[t][3] == "fp":
            return v
        if core.CT[t][3] == "bool":
            return v
        return self.exact(v, core.signed(t))

    def ret_raw(self, path):
        return path.retv if getattr(path, "concrete", False) else path.payload

    def out(self, path, name):
        if getattr(path, "concrete", False):
            return path.outs[name]
        return path.outs[name]

    def const(self, v):
        if self.mode == "bv":
            return z3.BitVecVal(v, self.W)
        if self.mode == "int":
            return z3.IntVal(v)
        return v


def truth(c):
    """python truth of a (possibly z3) closed boolean; None if not closed"""
    if isinstance(c, bool):
        return c
    s = z3.simplify(c)
    if z3.is_true(s):
        return True
    if z3.is_false(s):
        return False
    return None


def outcome_claim(env, path, cases, *, allowed_msgs=None):
    """cases: list of (kind, cond, value) ; kind RET: value is the exact expected return (or a
    predicate callable on env.ret(path)); TRAP: value = message; THROW: value = typeinfo name; ANY: anything.
    The claim for this path: some case of the path's kind holds."""
    X = ex
    alts = []
    for kind, cond, value in cases:
        if kind == "ANY":
            alts.append(cond)
            continue
        if kind != path.kind:
            continue
        if kind == "RET":
            r = env.ret(path)
            if callable(value):
                alts.append(X.And(cond, value(r)))
            elif value is None:
                alts.append(cond)
            else:
                alts.append(X.And(cond, X.eq(r, value)))
        elif kind == "TRAP":
            msg = path.payload
            if value is None or msg == value:
                alts.append(cond)
        elif kind == "THROW":
            t = path.payload[0] if isinstance(path.payload, tuple) else path.payload
            if value is None or (t or "").endswith(value):
                alts.append(cond)
        elif kind == "UB":
            alts.append(cond)
    return X.Or(*alts) if alts else False


# ------------------------------------------------------------------------------ building
class ShardBuild:
    def __init__(self, wd, tag, kernels, extra_includes=()):
        self.wd = wd
        self.tag = tag
        self.kernels = kernels
        self.src = os.path.join(wd, tag + ".cpp")
        with open(self.src, "w") as f:
            f.write(core.shard_source(kernels, extra_includes))
        self.ir = {}
        self.mods = {}
        self.runners = {}
        self.runner_procs = {}
        self.log = []

    def need(self):
        s = set()
        if not self.kernels:
            return [("gcc", False)]
        for k in self.kernels:
            for v in k.views:
                s.add((v, bool(k.ndebug)))
        return sorted(s)

    def build(self, runners=True):
        procs = []
        for (view, nd) in self.need():
            key = (view, nd)
            out = os.path.join(self.wd, "%s.%s.%d.ll" % (self.tag, view, nd))
            procs.append(("ir", key, out, subprocess.Popen(core.ir_cmd(self.src, out, view, nd),
                                                         stdout=subprocess.PIPE, stderr=subprocess.STDOUT)))
            if runners:
                exe = os.path.join(self.wd, "%s.%s.%d.run" % (self.tag, view, nd))
                procs.append(("run", key, exe, subprocess.Popen(core.runner_cmd(self.src, exe, view, nd),
                                                              stdout=subprocess.PIPE, stderr=subprocess.STDOUT)))
        ok = True
        for kind, key, out, p in procs:
            txt = p.communicate()[0].decode(errors="replace")
            if p.returncode != 0:
                ok = False
                self.log.append("%s %s failed:\n%s" % (kind, key, txt[-3000:]))
            elif kind == "ir":
                self.ir[key] = out
            else:
                self.runners[key] = out
        return ok

    def module(self, key):
        if key not in self.mods:
            self.mods[key] = irparse.parse_module(open(self.ir[key]).read())
        return self.mods[key]

    def runner(self, key):
        if key not in self.runner_procs:
            if key not in self.runners:
                return None
            self.runner_procs[key] = core.Runner(self.runners[key])
        return self.runner_procs[key]

    def ubsan_runner(self, key):
        k2 = ("ubsan",) + key
        if k2 not in self.runner_procs:
            exe = os.path.join(self.wd, "%s.%s.%d.ubsan.run" % (self.tag, key[0], key[1]))
            rc, txt = core.run_cmd(core.runner_cmd(self.src, exe, key[0], key[1], ubsan=True))
            if rc != 0:
                return None
            self.runner_procs[k2] = core.Runner(exe)
        return self.runner_procs[k2]

    def close(self):
        for r in self.runner_procs.values():
            r.close()


# ------------------------------------------------------------------------------ argument set-up
class ArgSet:
    """symbolic inputs of one kernel run"""

    def __init__(self, kernel, exr, env):
        self.kernel = kernel
        self.vars = []  # (arg, index, z3 var, ctype)
        self.env = env
        self.exr = exr
        self.objs = {}

    def setup(self, exr, st):
        k = self.kernel
        d = exr.dom
        env = self.env
        args = []
        for a in k.args:
            kind = core.CT[a.ctype][3]
            if a.kind in ("val", "ref"):
                v, exact = self.mkvar(d, a.name, a.ctype)
                env.raw[a.name] = v
                env.a[a.name] = exact
                if a.kind == "val":
                    args.append(v)
                else:
                    oid = exr.new_obj(st, 16, "arg:" + a.name)
                    st.mem[oid].cells[0] = (16, v)
                    self.objs[a.name] = oid
                    args.append(symex.Ptr(oid, IV(64, c=0)))
            else:
                esz = (core.bits(a.ctype) + 7) // 8
                oid = exr.new_obj(st, esz * a.n, "arg:" + a.name)
                self.objs[a.name] = oid
                raws, exacts = [], []
                if a.init == "sym":
                    for i in range(a.n):
                        v, exact = self.mkvar(d, "%s_%d" % (a.name, i), a.ctype)
                        st.mem[oid].cells[i * esz] = (esz, v)
                        raws.append(v)
                        exacts.append(exact)
                env.raw[a.name] = raws
                env.a[a.name] = exacts
                args.append(symex.Ptr(oid, IV(64, c=0)))
        if k.wide_ret():
            oid = exr.new_obj(st, 16, "ret_out")
            self.objs["ret_out"] = oid
            args.append(symex.Ptr(oid, IV(64, c=0)))
        return args

    def fix_wide_ret(self, exr, path):
        if path.kind == "RET" and self.kernel.wide_ret():
            st = symex.State()
            st.mem = path.mem
            path.payload = exr.load_conc(st, self.objs["ret_out"], 0, irparse.IntTy(128))

    def resetup(self, exr, st):
        """second and later runs: same symbolic variables, fresh memory objects"""
        k = self.kernel
        env = self.env
        args = []
        for a in k.args:
            if a.kind == "val":
                args.append(env.raw[a.name])
            elif a.kind == "ref":
                oid = exr.new_obj(st, 16, "arg:" + a.name)
                st.mem[oid].cells[0] = (16, env.raw[a.name])
                self.objs[a.name] = oid
                args.append(symex.Ptr(oid, IV(64, c=0)))
            else:
                esz = (core.bits(a.ctype) + 7) // 8
                oid = exr.new_obj(st, esz * a.n, "arg:" + a.name)
                self.objs[a.name] = oid
                if a.init == "sym":
                    for i, v in enumerate(env.raw[a.name]):
                        st.mem[oid].cells[i * esz] = (esz, v)
                args.append(symex.Ptr(oid, IV(64, c=0)))
        if k.wide_ret():
            oid = exr.new_obj(st, 16, "ret_out")
            self.objs["ret_out"] = oid
            args.append(symex.Ptr(oid, IV(64, c=0)))
        return args

    def mkvar(self, d, name, ctype):
        cpp_t, nb, sg, kind = core.CT[ctype]
        if kind == "fp":
            v = z3.FP(name, symex.fpsort(core.FPNAME[ctype]))
            self.vars.append((name, v, ctype))
            return v, v
        if kind == "bool":
            v = z3.Bool(name)
            self.vars.append((name, v, ctype))
            return v, v
        iv = d.var(nb, name, signed=sg)
        rg = self.kernel.arg_ranges.get(name)
        if rg is not None and hasattr(iv, "urng") and iv.e is None:
            # interval hint (INT mode); sound because the kernel's precondition implies it and is a base fact
            if sg:
                iv.srng = (max(rg[0], -(1 << (nb - 1))), min(rg[1], (1 << (nb - 1)) - 1))
                iv.urng = iv.srng if iv.srng[0] >= 0 else None
            else:
                iv.urng = (max(rg[0], 0), min(rg[1], (1 << nb) - 1))
                iv.srng = iv.urng if iv.urng[1] < (1 << (nb - 1)) else None
        zv = iv.e if iv.e is not None else (iv._s if sg else iv._u)
        self.vars.append((name, zv, ctype))
        self.exr.base_facts += d.range_facts(iv, sg)
        return iv, self.env.exact(iv, sg)

    def read_outs(self, exr, path):
        """attach output buffers to a RET path"""
        path.outs = {}
        if path.mem is None:
            return
        for a in self.kernel.args:
            if not a.out:
                continue
            oid = self.objs[a.name]
            obj = path.mem[oid]
            esz = (core.bits(a.ctype) + 7) // 8
            vals = []
            st = symex.State()
            st.mem = path.mem
            for i in range(a.n):
                try:
                    v = exr.load_conc(st, oid, i * esz, irparse.IntTy(core.bits(a.ctype)))
                except symex.PathEnd:
                    v = exr.dom.fresh(core.bits(a.ctype))
                vals.append(self.env.exact(v, core.signed(a.ctype)))
            path.outs[a.name] = vals


def model_inputs(model, argset):
    """-> dict var name -> python value (ints; floats as raw bit ints)"""
    out = {}
    for name, zv, ctype in argset.vars:
        kind = core.CT[ctype][3]
        v = model.eval(zv, model_completion=True)
        if kind == "fp":
            out[name] = fp_bits(v, ctype)
        elif kind == "bool":
            out[name] = 1 if z3.is_true(v) else 0
        else:
            out[name] = v.as_long() if not z3.is_int_value(v) else v.as_long()
            if z3.is_bv_value(v) and core.signed(ctype):
                out[name] = to_signed(v.as_long(), core.bits(ctype))
    return out


def fp_bits(v, ctype):
    """raw storage bits (int) of a z3 FP numeral"""
    v = z3.simplify(v)
    if ctype == "f80":
        # x86 extended: explicit integer bit
        if z3.is_fp(v) and v.isNaN():
            return (0x7FFF << 64) | (3 << 62)
        sign = 1 if v.isNegative() else 0
        if v.isInf():
            return (sign << 79) | (0x7FFF << 64) | (1 << 63)
        if v.isZero():
            return sign << 79
        e = v.exponent_as_long(biased=True)
        sig = v.significand_as_long()
        intbit = 0 if v.isSubnormal() else 1
        return (sign << 79) | (e << 64) | (intbit << 63) | sig
    bv = z3.simplify(z3.fpToIEEEBV(v))
    if z3.is_bv_value(bv):
        return bv.as_long()
    return (0x7FC00000 if ctype == "f32" else 0x7FF8 << 48)


def fpval_from_bits(b, ctype):
    if ctype == "f80":
        sign = b >> 79
        e = (b >> 64) & 0x7FFF
        sig = b & ((1 << 63) - 1)
        return z3.fpFP(z3.BitVecVal(sign, 1), z3.BitVecVal(e, 15), z3.BitVecVal(sig, 63))
    n = 32 if ctype == "f32" else 64
    return z3.simplify(z3.fpBVToFP(z3.BitVecVal(b, n), symex.fpsort(core.FPNAME[ctype])))


def hexargs_for(kernel, inputs):
    hs = []
    for a in kernel.args:
        nbytes = {"f80": 16}.get(a.ctype, (core.bits(a.ctype) + 7) // 8)
        if a.kind in ("val", "ref"):
            hs.append(core.hex_of_int(inputs[a.name], nbytes))
        else:
            if a.init == "sym":
                hs.append("".join(core.hex_of_int(inputs["%s_%d" % (a.name, i)], nbytes) for i in range(a.n)))
            else:
                hs.append("00" * (nbytes * a.n))
    return hs


def conc_env_and_path(kernel, consts, inputs, observed):
    """python-level env + ConcPath for an observed outcome of the real build"""
    env = Env(kernel, consts, "py", None)
    for a in kernel.args:
        kind = core.CT[a.ctype][3]
        if a.kind in ("val", "ref"):
            v = inputs[a.name]
            env.a[a.name] = fpval_from_bits(v, a.ctype) if kind == "fp" else (bool(v) if kind == "bool" else v)
        else:
            env.a[a.name] = [inputs["%s_%d" % (a.name, i)] for i in range(a.n)] if a.init == "sym" else []
    okind, payload = observed
    retv = None
    outs = {}
    if okind == "RET":
        parts = payload
        if kernel.ret:
            t = kernel.ret
            kind = core.CT[t][3]
            if kind == "fp":
                nb = core.FPBYTES[t]
                retv = fpval_from_bits(int.from_bytes(bytes.fromhex(parts[0])[:nb], "little"), t)
            elif kind == "bool":
                retv = bool(int(parts[0][:2], 16) & 1)
            else:
                retv = core.int_of_hex(parts[0], core.bits(t), core.signed(t))
        i = 1
        for a in kernel.args:
            if a.out:
                raw = bytes.fromhex(parts[i])
                i += 1
                esz = (core.bits(a.ctype) + 7) // 8
                vals = []
                for j in range(a.n):
                    v = int.from_bytes(raw[j * esz:(j + 1) * esz], "little")
                    if core.signed(a.ctype):
                        v = to_signed(v, core.bits(a.ctype))
                    vals.append(v)
                outs[a.name] = vals
        return env, ConcPath("RET", None, retv, outs)
    if okind == "THROW":
        return env, ConcPath("THROW", (payload[0], payload[1]))
    if okind == "TRAP":
        return env, ConcPath("TRAP", payload)
    if okind == "SIG":
        return env, ConcPath("UB", "signal %d" % payload[0])
    return env, ConcPath("ERR", payload)


# ------------------------------------------------------------------------------ solving
class Portfolio:
    def __init__(self, timeout_s=20, cvc5_timeout_s=None):
        self.timeout_s = timeout_s
        self.cvc5_timeout_s = cvc5_timeout_s if cvc5_timeout_s is not None else timeout_s
        self.stats = {"z3": 0, "cvc5": 0, "z3_time": 0.0, "cvc5_time": 0.0, "unknown": 0}

    def check(self, facts, want_model=True, use_cvc5=True):
        """-> (verdict 'unsat'|'sat'|'unknown', model or None, solver name, seconds)"""
        t0 = time.time()
        s = z3.Solver()
        s.set("timeout", int(self.timeout_s * 1000))
        for f in facts:
            if f is True:
                continue
            if f is False:
                return "unsat", None, "trivial", 0.0
            s.add(f)
        r = s.check()
        dt = time.time() - t0
        self.stats["z3"] += 1
        self.stats["z3_time"] += dt
        if r == z3.unsat:
            return "unsat", None, "z3", dt
        if r == z3.sat:
            return "sat", s.model(), "z3", dt
        if use_cvc5:
            t1 = time.time()
            v = self.cvc5(s)
            dt2 = time.time() - t1
            self.stats["cvc5"] += 1
            self.stats["cvc5_time"] += dt2
            if v == "unsat":
                return "unsat", None, "cvc5", dt + dt2
            if v == "sat":
                # no model transfer: re-ask z3 briefly for a model is pointless; report sat without model
                return "sat", None, "cvc5", dt + dt2
        self.stats["unknown"] += 1
        dd = os.environ.get("VERIF_DUMP")
        if dd:
            os.makedirs(dd, exist_ok=True)
            with open(os.path.join(dd, "unk%d_%d.smt2" % (os.getpid(), self.stats["unknown"])), "w") as f:
                f.write(s.to_smt2())
        return "unknown", None, "-", time.time() - t0

    def cvc5(self, solver):
        txt = solver.to_smt2()
        if "(error" in txt:
            return "unknown"
        try:
            p = subprocess.run(["cvc5", "--lang=smt2", "--tlimit=%d" % int(self.cvc5_timeout_s * 1000)],
                               input=("(set-logic ALL)\n" + txt).encode(), stdout=subprocess.PIPE,
                               stderr=subprocess.PIPE, timeout=self.cvc5_timeout_s + 10)
        except subprocess.TimeoutExpired:
            return "unknown"
        out = p.stdout.decode(errors="replace")
        if "(error" in out or "error" in p.stderr.decode(errors="replace").lower():
            return "unknown"
        first = out.strip().split("\n")[0].strip() if out.strip() else ""
        if first in ("sat", "unsat"):
            return first
        return "unknown"


# ------------------------------------------------------------------------------ vectors
def default_vectors(kernel, rng, n_random):
    """list of dict name->python value (raw bits for fp)"""
    names = []
    for a in kernel.args:
        if a.kind in ("val", "ref"):
            names.append((a.name, a.ctype))
        elif a.init == "sym":
            for i in range(a.n):
                names.append(("%s_%d" % (a.name, i), a.ctype))

    def specials(ct):
        kind = core.CT[ct][3]
        nb = core.bits(ct)
        if kind == "bool":
            return [0, 1]
        if kind == "fp":
            import struct
            fl = [0.0, 1.0, -1.0, 0.5, -0.5, 1.5, 2.5, -2.5, 100.25, -3.75, 0.49999997, 1e9, -1e9, 3.0, 127.0,
                  -128.0, 255.5, 0.1]
            if ct == "f32":
                return [struct.unpack("<I", struct.pack("<f", x))[0] for x in fl]
            if ct == "f64":
                return [struct.unpack("<Q", struct.pack("<d", x))[0] for x in fl]
            out = []
            for x in fl:
                out.append(f80_bits(x))
            return out
        lo, hi = core.tmin(ct), core.tmax(ct)
        s = {0, 1, 2, 3, 5, 7, 10, hi, hi - 1, lo, lo + 1, hi // 2, hi // 2 + 1, 0x55 & hi, 100 & hi}
        if lo < 0:
            s |= {-1, -2, -3, -5, -7, -10, lo // 2, -100 if lo <= -100 else -1}
        for k in (4, 7, 8, 15, 16, 31, 32, 63):
            if k < nb - (1 if lo < 0 else 0):
                s |= {1 << k, (1 << k) - 1}
                if lo < 0:
                    s |= {-(1 << k), -(1 << k) - 1 if -(1 << k) - 1 >= lo else lo}
        return sorted(v for v in s if lo <= v <= hi)

    vecs = []
    sp = {ct: specials(ct) for _, ct in names}
    # diagonal specials + random combos
    mx = max([len(v) for v in sp.values()] or [1])
    for i in range(mx):
        vecs.append({n: sp[ct][i % len(sp[ct])] for n, ct in names})
    for _ in range(n_random):
        v = {}
        for n, ct in names:
            if rng.random() < 0.6:
                v[n] = rng.choice(sp[ct])
            else:
                kind = core.CT[ct][3]
                if kind == "fp":
                    v[n] = rng.choice(sp[ct])
                elif kind == "bool":
                    v[n] = rng.randint(0, 1)
                else:
                    v[n] = rng.randint(core.tmin(ct), core.tmax(ct))
        vecs.append(v)
    return vecs


def f80_bits(x):
    import math
    if x == 0:
        return 0
    sign = 1 if x < 0 else 0
    m, e = math.frexp(abs(x))  # x = m * 2^e, 0.5<=m<1
    sig = int(m * (1 << 64))
    return (sign << 79) | ((e - 1 + 16383) << 64) | sig


# ------------------------------------------------------------------------------ per-kernel check
class KernelResult(dict):
    pass


def subst_list(argset, inputs):
    subs = []
    for name, zv, ctype in argset.vars:
        kind = core.CT[ctype][3]
        v = inputs[name]
        if kind == "fp":
            subs.append((zv, fpval_from_bits(v, ctype)))
        elif kind == "bool":
            subs.append((zv, z3.BoolVal(bool(v))))
        elif z3.is_bv(zv):
            subs.append((zv, z3.BitVecVal(v, zv.size())))
        else:
            subs.append((zv, z3.IntVal(v)))
    return subs


def eval_closed(e, subs):
    if isinstance(e, (bool, int)):
        return e
    r = z3.simplify(z3.substitute(e, *subs))
    return r


def norm_msg(m):
    """CNL_ASSERT messages start with __FILE__, whose spelling differs between compilers: keep the base name"""
    m = m or ""
    if " assert: " in m and ":" in m:
        path_, rest = m.split(":", 1)
        return path_.rsplit("/", 1)[-1] + ":" + rest
    return m


def observed_matches_path(kernel, env, path, observed, subs):
    """compare the real build's observed outcome with the symbolic path's outcome under substitution.
    -> True / False / None (indeterminate, e.g. depends on an undef value)"""
    okind, payload = observed
    if path.kind == "RET":
        if okind != "RET":
            return False
        res = True
        if kernel.ret:
            t = kernel.ret
            kind = core.CT[t][3]
            sym = path.payload
            if kind == "fp":
                nb = core.FPBYTES[t]
                ob = fpval_from_bits(int.from_bytes(bytes.fromhex(payload[0])[:nb], "little"), t)
                v = eval_closed(sym, subs)
                if not (z3.is_fp_value(v) or (z3.is_fp(v) and z3.is_app(v) and v.num_args() == 0)):
                    c = truth(z3.Or(v == ob, z3.And(z3.fpIsNaN(v), z3.fpIsNaN(ob))))
                else:
                    c = truth(z3.Or(v == ob, z3.And(z3.fpIsNaN(v), z3.fpIsNaN(ob))))
                if c is None:
                    return None
                res = res and c
            elif kind == "bool":
                ob = bool(int(payload[0][:2], 16) & 1)
                v = sym if is_conc_bool(sym) else truth(eval_closed(sym, subs))
                if v is None:
                    return None
                res = res and (v == ob)
            else:
                ob = core.int_of_hex(payload[0], core.bits(t), False)
                if sym.c is not None:
                    v = sym.c
                else:
                    e = env.dom.E(sym)
                    r = eval_closed(e, subs)
                    if z3.is_bv_value(r) or z3.is_int_value(r):
                        v = r.as_long() & mask(core.bits(t))
                    else:
                        return None
                res = res and (v == ob)
        i = 1
        for a in kernel.args:
            if a.out:
                raw = bytes.fromhex(payload[i])
                i += 1
                esz = (core.bits(a.ctype) + 7) // 8
                for j, sv in enumerate(path.outs.get(a.name, [])):
                    ob = int.from_bytes(raw[j * esz:(j + 1) * esz], "little")
                    if core.signed(a.ctype):
                        ob = to_signed(ob, core.bits(a.ctype))
                    r = eval_closed(sv, subs)
                    if isinstance(r, int):
                        v = r
                    elif z3.is_bv_value(r):
                        v = to_signed(r.as_long(), r.size())
                    elif z3.is_int_value(r):
                        v = r.as_long()
                    else:
                        continue  # unwritten/undef byte
                    if v != ob:
                        return False
        return res
    if path.kind == "TRAP":
        return okind == "TRAP" and norm_msg(path.payload) == norm_msg(payload)
    if path.kind == "THROW":
        return okind == "THROW" and (path.payload[0] or "").endswith(payload[0])
    return None  # UB / UNWIND: the real build may do anything


def check_kernel(sb, kernel, view, opts, known=None):
    """returns KernelResult"""
    t_start = time.time()
    res = KernelResult(name=kernel.name, view=view, desc=kernel.desc, tags=kernel.tags, obligations=[],
                       violations=[], known=[], status="ok", notes=[])
    key = (view, bool(kernel.ndebug))
    try:
        mod = sb.module(key)
    except IRUnsupported as e:
        res["status"] = "unsupported"
        res["reason"] = "IR parse: %s" % e
        return res
    # compile-time constants
    consts = {}
    for cname in kernel.consts:
        g = mod.globals.get("%s_c_%s" % (kernel.name, cname))
        if g is None or g.init is None or g.init.k not in ("int", "zero"):
            res["status"] = "unsupported"
            res["reason"] = "constant %s is not a compile-time constant in IR" % cname
            return res
        v = 0 if g.init.k == "zero" else g.init.v
        consts[cname] = to_signed(v, 128)
    res["consts"] = consts
    modes = [kernel.mode] + [m for m in kernel.alt_modes if m != kernel.mode]
    last_err = None
    for mode in modes:
        try:
            r = check_kernel_mode(sb, kernel, view, key, mod, consts, mode, opts, res, known)
            res["mode"] = mode
            res["wall_s"] = round(time.time() - t_start, 3)
            return r
        except (IntUnsupported,) as e:
            last_err = "INT encoding not applicable: %s" % e
            res["obligations"] = []
            continue
        except IRUnsupported as e:
            last_err = "unsupported IR: %s" % e
            res["obligations"] = []
            continue
    res["status"] = "unsupported"
    res["reason"] = last_err
    res["wall_s"] = round(time.time() - t_start, 3)
    return res


def guided_paths(kernel, exr, argset, env, setup_fn, opts, mode, W, res):
    rng = random.Random((opts["seed"] << 8) ^ 0x5EED)
    seeds = kernel.guided_seeds(rng)
    exr.merge = False
    exr.record_trace = True
    # phase 1 (optional): cheap fully concrete runs of many random inputs to discover rarely taken traces;
    # one seed per distinct trace is then followed symbolically
    by_trace = {}
    cand_viol = []
    res["_cand_inputs"] = cand_viol
    if getattr(kernel, "guided_random", None):
        gen, count = kernel.guided_random
        seen_tr = set()
        extra = []
        t_lim = time.time() + opts.get("kernel_budget", 120) * 0.25
        cex = symex.Executor(exr.mod, mode=mode, unwind=exr.unwind, max_paths=10)
        cex.merge = False
        cex.record_trace = True
        for _ in range(count):
            if time.time() > t_lim:
                break
            inp = gen(rng)

            def csetup(e_, st_, _inp=inp):
                args_ = []
                for a in kernel.args:
                    nb_ = core.bits(a.ctype)
                    if a.kind == "val":
                        args_.append(IV(nb_, c=_inp[a.name]))
                    elif a.kind == "ref":
                        oid = e_.new_obj(st_, 16, "arg:" + a.name)
                        st_.mem[oid].cells[0] = (16, IV(nb_, c=_inp[a.name]))
                        args_.append(symex.Ptr(oid, IV(64, c=0)))
                    else:
                        esz = (nb_ + 7) // 8
                        oid = e_.new_obj(st_, esz * a.n, "arg:" + a.name)
                        if a.init == "sym":
                            for i in range(a.n):
                                st_.mem[oid].cells[i * esz] = (esz, IV(nb_, c=_inp["%s_%d" % (a.name, i)]))
                        args_.append(symex.Ptr(oid, IV(64, c=0)))
                if kernel.wide_ret():
                    oid = e_.new_obj(st_, 16, "ret_out")
                    args_.append(symex.Ptr(oid, IV(64, c=0)))
                return args_
            try:
                ps_ = cex.run(kernel.name, None, setup=csetup)
            except Exception:
                continue
            # the concrete run also gives concrete outputs: inputs on which the IR's own result violates the oracle
            # are kept as candidate counterexamples (replayed on the real build later)
            try:
                for p_ in ps_:
                    if p_.kind != "RET" or len(cand_viol) >= 5:
                        continue
                    cenv = Env(kernel, res.get("consts", {}), "py", None)
                    couts = {}
                    oidx = 1
                    for a in kernel.args:
                        nb_ = core.bits(a.ctype)
                        if a.kind in ("val", "ref"):
                            cenv.a[a.name] = inp[a.name]
                        else:
                            cenv.a[a.name] = [inp["%s_%d" % (a.name, i)] for i in range(a.n)] if a.init == "sym" else []
                        oidx += 1
                    # outputs: objects were created in argument order starting at id 1
                    st_m = symex.State()
                    st_m.mem = p_.mem
                    oid_ = 1
                    for a in kernel.args:
                        if a.kind == "val":
                            continue
                        if a.out:
                            esz = (core.bits(a.ctype) + 7) // 8
                            vals = []
                            for i in range(a.n):
                                v_ = cex.load_conc(st_m, oid_, i * esz, irparse.IntTy(core.bits(a.ctype)))
                                vv = v_.c if v_.c is not None else 0
                                vals.append(to_signed(vv, core.bits(a.ctype)) if core.signed(a.ctype) else vv)
                            couts[a.name] = vals
                        oid_ += 1
                    rv = p_.payload
                    rvc = None
                    if isinstance(rv, IV) and rv.c is not None and kernel.ret:
                        rvc = rv.sc if core.signed(kernel.ret) else rv.c
                    cp_ = ConcPath("RET", None, rvc, couts)
                    ctx_save = tuple(ex._CTX)
                    ex.set_ctx("py")
                    try:
                        bad_ = [lab for lab, cl in (kernel.claims(cenv, cp_) if kernel.claims else []) if truth(cl) is False]
                    finally:
                        ex.set_ctx(*ctx_save)
                    if bad_:
                        cand_viol.append(inp)
            except Exception:
                pass
            for p_ in ps_:
                tr = (p_.kind, getattr(p_, "trace", ()))
                if tr not in seen_tr:
                    seen_tr.add(tr)
                    extra.append(inp)
                    by_trace[tr[1]] = [inp]
                elif len(by_trace[tr[1]]) < 400:
                    by_trace[tr[1]].append(inp)
        res["notes"].append("concrete trace discovery: %d distinct traces" % len(seen_tr))
        seeds = list(seeds) + extra
    seen = {}
    nseed = 0
    nskip = 0
    first = True
    saved_vars = None
    for inputs in seeds:
        if exr.deadline is not None and time.time() > exr.deadline:
            break
        # fresh symbolic inputs are created on the first run only; later runs reuse them
        if first:
            exr.guide = []
            # a first run is needed to create the variables; bind the guide lazily inside setup
            def setup_first(e_, st_):
                a_ = setup_fn(e_, st_)
                e_.guide = subst_list(argset, inputs)
                return a_
            cur_setup = setup_first
        else:
            def setup_again(e_, st_, _inputs=inputs):
                a_ = replay_setup(e_, st_)
                e_.guide = subst_list(argset, _inputs)
                return a_
            cur_setup = setup_again
        try:
            if first:
                # precondition holds for the seed?
                pass
            ps = exr.run(kernel.name, None, setup=cur_setup)
        except (IRUnsupported,) as e:
            nskip += 1
            if first:
                raise
            continue
        if first:
            first = False
            init_state = (dict(env.raw), dict(env.a), dict(argset.objs))

            def replay_setup(e_, st_):
                # rebuild the argument objects with the SAME symbolic variables
                return argset.resetup(e_, st_)
        if kernel.pre:
            ex.set_ctx(mode, W if W is not None else 64)
            pz = kernel.pre(env)
            if not isinstance(pz, bool):
                if truth(eval_closed(pz, subst_list(argset, inputs))) is not True:
                    nskip += 1
                    continue
            elif pz is False:
                nskip += 1
                continue
        nseed += 1
        for p_ in ps:
            if p_.kind == "INFEASIBLE":
                continue
            sig = (p_.kind, getattr(p_, "trace", ()), repr(p_.payload) if p_.kind != "RET" else "")
            if sig not in seen:
                p_.seeds = [inputs]
                seen[sig] = p_
            elif len(seen[sig].seeds) < 6:
                seen[sig].seeds.append(inputs)
    exr.guide = None
    # inputs of the concrete discovery phase that follow the same trace serve as further candidate models
    for p_ in seen.values():
        more = by_trace.get(getattr(p_, "trace", ()), [])
        p_.seeds = list(p_.seeds) + more
    res["guided"] = {"seeds": nseed, "distinct_paths": len(seen), "skipped": nskip}
    res["notes"].append("trace-guided exploration: %d seed inputs, %d distinct paths" % (nseed, len(seen)))
    return list(seen.values())


def check_kernel_mode(sb, kernel, view, key, mod, consts, mode, opts, res, known):
    tier = opts["tier"]
    W = kernel.W
    exr = symex.Executor(mod, mode=mode, unwind=kernel.unwind or 70, max_paths=kernel.max_paths or 3000)
    if kernel.prune_timeout_ms:
        exr.solver.set("timeout", kernel.prune_timeout_ms)
    t_kernel = time.time()
    budget = opts.get("kernel_budget", 120)
    exr.deadline = t_kernel + budget * 0.5
    env = Env(kernel, consts, mode, W, exr.dom)
    argset = ArgSet(kernel, exr, env)
    def setup_with_pre(e_, st_):
        a_ = argset.setup(e_, st_)
        # the kernel's precondition prunes the exploration (paths infeasible under it are irrelevant)
        if kernel.pre:
            ex.set_ctx(mode, W if W is not None else 64)
            pz = kernel.pre(env)
            if pz is not True and pz is not False:
                e_.base_facts.append(pz)
        return a_
    if kernel.guided_seeds is None:
        paths = exr.run(kernel.name, None, setup=setup_with_pre)
    else:
        # trace-guided: follow only the paths taken by concrete seed inputs (values stay symbolic on each path)
        paths = guided_paths(kernel, exr, argset, env, setup_with_pre, opts, mode, W, res)
    paths = [p for p in paths if p.kind != "INFEASIBLE"]
    for p in paths:
        if p.kind == "RET":
            argset.fix_wide_ret(exr, p)
            argset.read_outs(exr, p)
    res["paths"] = len(paths)
    res["path_kinds"] = {}
    for p in paths:
        res["path_kinds"][p.kind] = res["path_kinds"].get(p.kind, 0) + 1
    res["functions_encoded"] = sorted(exr.funcs_reached | {kernel.name})
    res["stubs"] = sorted(exr.stubs_used)
    res["prune_calls"] = exr.prune_calls
    base = list(exr.base_facts) + list(getattr(exr.dom, "facts", []))
    ex.set_ctx(mode, W if W is not None else 64)
    pre = kernel.pre(env) if kernel.pre else True
    # known-finding regions are excluded from the refutation query
    regions = []
    for kf in (known or []):
        if kf.matches(kernel, view):
            regions.append((kf, kf.region(env)))
    pre_main = ex.And(pre, *[ex.Not(r) for _, r in regions]) if regions else pre

    pf = Portfolio(timeout_s=kernel.timeout or opts["timeout"], cvc5_timeout_s=opts.get("cvc5_timeout"))
    # ---- reference kernel (equivalence) paths
    ref_paths = None
    if kernel.ref_body is not None:
        exr2 = symex.Executor(mod, mode=mode, unwind=kernel.unwind or 70, max_paths=kernel.max_paths or 3000)
        exr2.dom = exr.dom
        exr2.base_facts = exr.base_facts

        def setup2(e2, st):
            # same symbolic inputs, fresh memory objects
            args = []
            for a in kernel.args:
                if a.kind == "val":
                    args.append(env.raw[a.name])
                elif a.kind == "ref":
                    oid = e2.new_obj(st, 16, "arg:" + a.name)
                    st.mem[oid].cells[0] = (16, env.raw[a.name])
                    args.append(symex.Ptr(oid, IV(64, c=0)))
                else:
                    raise IRUnsupported("buffer args in equivalence kernels")
            if kernel.wide_ret():
                oid = e2.new_obj(st, 16, "ret_out")
                ref_ret[0] = oid
                args.append(symex.Ptr(oid, IV(64, c=0)))
            return args
        ref_ret = [None]
        ref_paths = [p for p in exr2.run(kernel.name + "_ref", None, setup=setup2) if p.kind != "INFEASIBLE"]
        if kernel.wide_ret():
            for p in ref_paths:
                if p.kind == "RET":
                    st_ = symex.State()
                    st_.mem = p.mem
                    p.payload = exr2.load_conc(st_, ref_ret[0], 0, irparse.IntTy(128))
        res["ref_paths"] = len(ref_paths)
        res["functions_encoded"] = sorted(set(res["functions_encoded"]) | exr2.funcs_reached | {kernel.name + "_ref"})

    # ---- translator validation against the real build
    runner = sb.runner(key) if opts.get("validate", True) else None
    rng = random.Random((opts["seed"] << 16) ^ (int(hashlib.md5(kernel.name.encode()).hexdigest()[:8], 16)))
    nvec = 0
    nindet = 0
    if runner is not None:
        vecs = kernel.vectors(rng) if kernel.vectors else default_vectors(kernel, rng, opts["nrandom"])
        if kernel.guided_seeds is not None:
            gseeds = []
            for p_ in paths:
                gseeds += list(getattr(p_, "seeds", []))[:2]
            vecs = gseeds[:60] + vecs[:10]
        for inputs in vecs:
            subs = subst_list(argset, inputs)
            if subs and pre is not True and pre is not False:
                pv = truth(eval_closed(pre, subs)) if not isinstance(pre, bool) else pre
            else:
                pv = pre if isinstance(pre, bool) else True
            if pv is False:
                # vectors must satisfy the precondition (outside it the real build may execute UB): shrink and retry
                ok_in = None
                for kbits in (30, 23, 14, 6, 3):
                    cand = {}
                    for (vn, zv, ct) in argset.vars:
                        v = inputs[vn]
                        if core.CT[ct][3] == "int":
                            m = 1 << kbits
                            v = ((v + m) % (2 * m)) - m if core.signed(ct) else v % m
                        cand[vn] = v
                    s2 = subst_list(argset, cand)
                    if truth(eval_closed(pre, s2)) is True:
                        ok_in, subs = cand, s2
                        break
                if ok_in is None:
                    continue
                inputs = ok_in
            for fname, plist in ((kernel.name, paths),) + (((kernel.name + "_ref", ref_paths),) if ref_paths else ()):
                observed = runner.call(fname, hexargs_for(kernel, inputs))
                active = None
                amb = False
                for p in plist:
                    c = True
                    for f in p.pc:
                        t = truth(eval_closed(f, subs))
                        if t is None:
                            c = None
                            break
                        if not t:
                            c = False
                            break
                    if c is True:
                        active = p
                        break
                    if c is None:
                        amb = True
                if active is None:
                    if amb or kernel.guided_seeds is not None:
                        # (trace-guided kernels only cover the paths of their seeds)
                        nindet += 1
                        continue
                    res["status"] = "encoding-mismatch"
                    res["reason"] = "no symbolic path is active for inputs %r (%s)" % (inputs, fname)
                    return res
                m = observed_matches_path(kernel, env, active, observed, subs)
                nvec += 1
                if m is None:
                    nindet += 1
                elif m is False:
                    res["status"] = "encoding-mismatch"
                    res["reason"] = "real build %s%r -> %r but symbolic path says %s %r" % (
                        fname, inputs, observed, active.kind, active.payload)
                    return res
    res["validated_vectors"] = nvec
    res["indeterminate_vectors"] = nindet

    # ---- vacuity witness
    retp = [p for p in paths if p.kind == "RET"]
    wit = None
    if opts.get("witness", True):
        cands = retp or paths
        for p in cands[:6]:
            v, model, sv, dt = pf.check(base + [pre_main] + p.pc, use_cvc5=False)
            if v == "sat":
                wit = "sat"
                break
            if v == "unknown":
                wit = wit or "unknown"
        if wit is None:
            wit = "unsat"
        res["witness"] = wit
        if wit == "unsat" and regions:
            # is the kernel's whole precondition inside known-finding regions?  then nothing is left to prove here
            v0, _, _, _ = pf.check(base + [pre] + (cands[0].pc if cands else []), use_cvc5=False)
            if v0 == "sat" or any(pf.check(base + [pre] + p.pc, use_cvc5=False)[0] == "sat" for p in paths[:8]):
                wit = "covered-by-known-finding"
                res["witness"] = wit
                res["notes"].append("whole input domain lies inside known-finding regions")
        if wit == "unsat" and len(cands) <= 6:
            res["status"] = "vacuous"
            res["reason"] = "precondition and every returning path are contradictory"
            return res

    # ---- obligations
    obls = []  # (label, facts, path, ref_path)
    if ref_paths is None:
        for i, p in enumerate(paths):
            if p.kind == "UNWIND":
                obls.append(("unwind:%s" % p.payload, [pre_main] + p.pc + [], p, None, "bound"))
                continue
            if p.kind == "UB" and not kernel.allow_ub:
                cl = kernel.claims(env, p) if kernel.claims else []
                ubclaims = [c for (lab, c) in cl if lab.startswith("ub-ok")]
                negs = [ex.Not(c) for c in ubclaims]
                obls.append(("no-UB:%s" % p.payload, [pre_main] + p.pc + negs, p, None, "ub"))
                continue
            for lab, claim in (kernel.claims(env, p) if kernel.claims else []):
                if lab.startswith("ub-ok"):
                    continue
                obls.append(("%s@path%d[%s]" % (lab, i, p.kind), [pre_main] + p.pc + [ex.Not(claim)], p, None, "claim"))
    else:
        for i, p in enumerate(paths):
            for j, q in enumerate(ref_paths):
                same = equiv_claim(env, kernel, p, q)
                if same is True:
                    # still need nothing: outcomes identical whenever both paths are active
                    continue
                obls.append(("equiv@%d/%d[%s|%s]" % (i, j, p.kind, q.kind),
                             [pre_main] + p.pc + q.pc + [ex.Not(same)], p, q, "claim"))
        for lab, claim in (kernel.claims(env, None) if kernel.claims else []):
            obls.append((lab, [pre_main, ex.Not(claim)], None, None, "claim"))

    n_unknown = 0
    for lab, facts, p, q, okind in obls:
        if kernel.guided_seeds is not None and n_unknown >= opts.get("max_unknown_guided", 12):
            res["obligations"].append({"label": lab, "verdict": "unknown", "solver": "-", "t": 0.0,
                                       "note": "not attempted: earlier obligations of this trace-guided kernel exhausted the solver cap"})
            continue
        if time.time() - t_kernel > budget:
            res["obligations"].append({"label": lab, "verdict": "unknown", "solver": "-", "t": 0.0, "note": "kernel time budget"})
            continue
        if any(f is False for f in facts):
            res["obligations"].append({"label": lab, "verdict": "unsat", "solver": "trivial", "t": 0.0})
            continue
        # trace-guided paths carry the concrete seed inputs that produced them: try those as candidate models first
        cand = None
        for sd_ in (getattr(p, "seeds", None) or [])[:400]:
            try:
                subs_ = subst_list(argset, sd_)
                if all(truth(eval_closed(f, subs_)) is True for f in facts if not isinstance(f, bool)) and not any(f is False for f in facts):
                    cand = sd_
                    break
            except Exception:
                pass
        if cand is not None:
            rec = {"label": lab, "verdict": "sat", "solver": "seed-candidate", "t": 0.0}
            rec["inputs"] = {k: (hex(x) if abs(x) > 1 << 20 else x) for k, x in cand.items()}
            rec["symbolic_outcome"] = "%s %s" % (p.kind, short(p.payload))
            conf = replay(sb, kernel, view, key, consts, cand, p, okind, regions)
            rec.update(conf)
            if conf["replay"] == "confirmed":
                res["violations"].append(rec)
            res["obligations"].append(rec)
            continue
        v, model, sv, dt = pf.check(base + facts)
        if v == "unknown" and kernel.splits is not None:
            # case split (e.g. on operand signs): all cases unsat => unsat; a sat case carries its model
            allu = True
            for sc in kernel.splits(env):
                v2, m2, sv2, dt2 = pf.check(base + facts + [sc])
                dt += dt2
                if v2 == "sat":
                    v, model, sv, allu = "sat", m2, sv2 + "+split", False
                    break
                if v2 != "unsat":
                    allu = False
                    break
            if allu:
                v, sv = "unsat", "z3+split"
        rec = {"label": lab, "verdict": v, "solver": sv, "t": round(dt, 3)}
        if v == "unknown":
            n_unknown += 1
        if v == "sat" and model is None:
            # cvc5 said sat: get a model from z3 with a longer budget
            pf2 = Portfolio(timeout_s=4 * pf.timeout_s)
            v2, model, _, _ = pf2.check(base + facts, use_cvc5=False)
            if v2 != "sat":
                rec["verdict"] = "unknown"
                rec["note"] = "cvc5 sat, z3 gave no model"
                res["obligations"].append(rec)
                continue
        if v == "sat":
            if okind == "bound":
                if kernel.terminates:
                    # termination claim: run the model on the real build; no return within the runner's 5 s alarm
                    # (SIGALRM) confirms non-termination, anything else means the unwinding bound was too small
                    inputs = model_inputs(model, argset)
                    conf = replay(sb, kernel, view, key, consts, inputs, p, "bound", regions)
                    if conf.get("replay") == "confirmed":
                        # either no return within 5 s, or the real build returned an outcome that violates the claims
                        rec["inputs"] = {k: (hex(x) if abs(x) > 1 << 20 else x) for k, x in inputs.items()}
                        rec["symbolic_outcome"] = "UNWIND %s" % short(p.payload)
                        rec.update(conf)
                        if "signal 14" in str(conf.get("failed_claims")):
                            rec["failed_claims"] = ["terminates: the real build did not return within 5 s"]
                        else:
                            rec["failed_claims"] = ["beyond the unwinding bound; on the real build: %s" % conf.get("failed_claims")]
                        res["violations"].append(rec)
                        res["obligations"].append(rec)
                        continue
                rec["verdict"] = "bound-exceeded"
                res["obligations"].append(rec)
                continue
            inputs = model_inputs(model, argset)
            rec["inputs"] = {k: (hex(x) if abs(x) > 1 << 20 else x) for k, x in inputs.items()}
            rec["symbolic_outcome"] = "%s %s" % (p.kind, short(p.payload)) if p is not None else ""
            conf = replay(sb, kernel, view, key, consts, inputs, p, okind, regions)
            rec.update(conf)
            if conf["replay"] == "confirmed":
                res["violations"].append(rec)
            # look for further distinct violations is not needed: one per obligation
        res["obligations"].append(rec)

    # ---- candidate counterexamples found by the concrete discovery phase of trace-guided kernels
    for inp_ in res.pop("_cand_inputs", []) or []:
        conf = replay(sb, kernel, view, key, consts, inp_, None, "claim", regions)
        rec = {"label": "concrete-discovery-candidate", "verdict": "sat", "solver": "concrete-run", "t": 0.0,
               "inputs": {k_: (hex(x) if abs(x) > 1 << 20 else x) for k_, x in inp_.items()}}
        rec.update(conf)
        res["obligations"].append(rec)
        if conf["replay"] == "confirmed":
            res["violations"].append(rec)
            break
    # ---- known findings: confirm each region still fails (KNOWN-FINDING line) -- never counted as discharged
    for kf, region in regions:
        found = None
        for i, p in enumerate(paths):
            if p.kind == "UNWIND" and not kernel.terminates:
                continue
            if p.kind == "UNWIND":
                facts = [pre, region] + p.pc
            elif p.kind == "UB" and not kernel.allow_ub:
                facts = [pre, region] + p.pc
            else:
                cl = [c for lab, c in (kernel.claims(env, p) if kernel.claims else []) if not lab.startswith("ub-ok")]
                if not cl:
                    continue
                facts = [pre, region] + p.pc + [ex.Not(ex.And(*cl))]
            if any(f is False for f in facts):
                continue
            v, model, sv, dt = pf.check(base + facts, use_cvc5=False)
            if v == "sat" and model is not None:
                inputs = model_inputs(model, argset)
                conf = replay(sb, kernel, view, key, consts, inputs, p, "ub" if p.kind == "UB" else "claim", [])
                if conf["replay"] == "confirmed":
                    found = {"id": kf.id, "inputs": inputs, "observed": conf.get("observed"), "kernel": kernel.name}
                    break
        if found:
            res["known"].append(found)
    res["solver_stats"] = pf.stats
    return res


def short(x):
    s = repr(x)
    return s if len(s) < 120 else s[:117] + "..."


def equiv_claim(env, kernel, p, q):
    """outcomes of the CNL kernel path p and the reference path q are identical"""
    if p.kind != q.kind:
        if p.kind == "UNWIND" or q.kind == "UNWIND":
            return False
        return False
    if p.kind == "RET":
        a, b = p.payload, q.payload
        if isinstance(a, IV):
            if a.c is not None and b.c is not None:
                return a.c == b.c
            return env.dom.icmp("eq", a, b)
        if is_conc_bool(a) and is_conc_bool(b):
            return a == b
        if z3.is_fp(a):
            return z3.Or(a == b, z3.And(z3.fpIsNaN(a), z3.fpIsNaN(b)))
        return ex.Iff(a, b)
    if p.kind in ("TRAP",):
        return p.payload == q.payload
    if p.kind == "UB":
        return True  # both undefined (kind may differ in name only)
    if p.kind == "THROW":
        return p.payload[0] == q.payload[0]
    return False


def replay(sb, kernel, view, key, consts, inputs, path, okind, regions):
    """run the model on the real build; confirmed iff the real outcome violates the property"""
    out = {"replay": "none"}
    runner = sb.runner(key)
    if runner is None:
        out["replay"] = "no-runner"
        return out
    hx = hexargs_for(kernel, inputs)
    observed = runner.call(kernel.name, hx)
    out["observed"] = "%s %s" % (observed[0], short(observed[1]))
    if kernel.ref_body is not None:
        obs_ref = runner.call(kernel.name + "_ref", hx)
        out["observed_ref"] = "%s %s" % (obs_ref[0], short(obs_ref[1]))
        same = observed == obs_ref
        if okind == "claim" and not same:
            out["replay"] = "confirmed"
        elif not same:
            out["replay"] = "confirmed"
        else:
            # identical on the optimised real build; try the sanitizer build for UB-differences
            out["replay"] = "not-reproduced"
        return out
    env, cp = conc_env_and_path(kernel, consts, inputs, observed)
    ctx_save = tuple(ex._CTX)
    ex.set_ctx("py")
    try:
        return replay_conc(sb, kernel, view, key, consts, inputs, path, okind, out, env, cp, hx)
    finally:
        ex.set_ctx(*ctx_save)


def replay_conc(sb, kernel, view, key, consts, inputs, path, okind, out, env, cp, hx):
    if cp.kind == "ERR":
        out["replay"] = "runner-error"
        return out
    # precondition check on concrete inputs
    pre = kernel.pre(env) if kernel.pre else True
    if truth(pre) is False:
        out["replay"] = "model-outside-precondition"
        return out
    bad = []
    if cp.kind == "UB":
        bad.append("crash: %s" % cp.payload)
    else:
        try:
            for lab, claim in (kernel.claims(env, cp) if kernel.claims else []):
                if lab.startswith("ub-ok"):
                    continue
                t = truth(claim)
                if t is False:
                    bad.append(lab)
        except Exception as e:  # oracle not evaluable concretely
            out["oracle_error"] = repr(e)
    if bad:
        out["replay"] = "confirmed"
        out["failed_claims"] = bad
        return out
    if okind == "ub" or (path is not None and path.kind == "UB"):
        # the plain build happened to produce an acceptable value; ask the sanitizer build of the real compiler
        ur = sb.ubsan_runner(key)
        if ur is not None:
            o2 = ur.call(kernel.name, hx)
            out["observed_ubsan"] = "%s %s" % (o2[0], short(o2[1]))
            if o2[0] in ("SIG", "TRAP", "ERR") or (o2[0] == "EXIT"):
                if o2[0] == "TRAP" and o2[1] in ("positive overflow", "negative overflow"):
                    out["replay"] = "not-reproduced"
                else:
                    out["replay"] = "confirmed"
                    out["failed_claims"] = ["undefined behaviour: %s (sanitizer build of the real compiler stops)" % (
                        path.payload if path is not None else "?")]
                return out
        out["replay"] = "not-reproduced"
        return out
    out["replay"] = "not-reproduced"
    return out
