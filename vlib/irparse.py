"""Parser for the subset of LLVM-14 textual IR that clang++-14 -O1 emits for the
generated CNL kernels.  Produces plain python objects (Module / Function / Block /
Instr) consumed by the symbolic executor (symex.py) and the IR->C translator
(ir2c.py).  Anything not understood raises IRUnsupported, which callers count as
"kernel rejected", never as success."""
import re


class IRUnsupported(Exception):
    pass


# ----------------------------------------------------------------------------- types
class Ty:
    __slots__ = ("k", "bits", "elem", "n", "fields", "packed", "name", "ret", "params", "vararg")

    def __init__(self, k, **kw):
        self.k = k
        self.bits = kw.get("bits")
        self.elem = kw.get("elem")
        self.n = kw.get("n")
        self.fields = kw.get("fields")
        self.packed = kw.get("packed", False)
        self.name = kw.get("name")
        self.ret = kw.get("ret")
        self.params = kw.get("params")
        self.vararg = kw.get("vararg", False)

    def __repr__(self):
        if self.k == "int":
            return "i%d" % self.bits
        if self.k == "fp":
            return self.name
        if self.k == "ptr":
            return "%r*" % (self.elem,)
        if self.k == "array":
            return "[%d x %r]" % (self.n, self.elem)
        if self.k == "struct":
            return "{%s}" % ", ".join(map(repr, self.fields))
        if self.k == "named":
            return "%" + self.name
        if self.k == "func":
            return "%r (%s)" % (self.ret, ", ".join(map(repr, self.params)))
        return self.k


VOID = Ty("void")
LABEL = Ty("label")
METADATA = Ty("metadata")
FP_FORMATS = {"half": (5, 11), "float": (8, 24), "double": (11, 53), "x86_fp80": (15, 64), "fp128": (15, 113)}
FP_STORE_BYTES = {"half": 2, "float": 4, "double": 8, "x86_fp80": 16, "fp128": 16}


def IntTy(n):
    return Ty("int", bits=n)


TOKEN_RE = re.compile(r'''
    (?P<ws>\s+)
  | (?P<comment>;[^\n]*)
  | (?P<cstr>c"(?:[^"\\]|\\[0-9A-Fa-f]{2}|\\\\)*")
  | (?P<str>"(?:[^"\\]|\\.)*")
  | (?P<local>%(?:"(?:[^"\\]|\\.)*"|[-a-zA-Z$._0-9]+))
  | (?P<glob>@(?:"(?:[^"\\]|\\.)*"|[-a-zA-Z$._0-9]+))
  | (?P<md>![-a-zA-Z$._0-9]*|!"(?:[^"\\]|\\.)*")
  | (?P<attr>\#[0-9]+)
  | (?P<comdat>\$(?:"(?:[^"\\]|\\.)*"|[-a-zA-Z$._0-9]+))
  | (?P<hex>0x[KLMHR]?[0-9A-Fa-f]+)
  | (?P<float>[-+]?[0-9]+\.[0-9]*(?:[eE][-+]?[0-9]+)?)
  | (?P<int>-?[0-9]+)
  | (?P<dots>\.\.\.)
  | (?P<word>[a-zA-Z_][-a-zA-Z_0-9.]*)
  | (?P<punct>[()\[\]{}<>,=*:|])
''', re.X)


def tokenize(s):
    out = []
    pos = 0
    n = len(s)
    while pos < n:
        m = TOKEN_RE.match(s, pos)
        if not m:
            raise IRUnsupported("cannot tokenize: %r" % s[pos:pos + 40])
        pos = m.end()
        k = m.lastgroup
        if k in ("ws", "comment"):
            continue
        out.append((k, m.group(k)))
    return out


class Toks:
    def __init__(self, toks, line=""):
        self.t = toks
        self.i = 0
        self.line = line

    def peek(self, o=0):
        j = self.i + o
        return self.t[j] if j < len(self.t) else (None, None)

    def peekv(self, o=0):
        return self.peek(o)[1]

    def next(self):
        tk = self.peek()
        self.i += 1
        return tk

    def eof(self):
        return self.i >= len(self.t)

    def accept(self, v):
        if self.peekv() == v:
            self.i += 1
            return True
        return False

    def expect(self, v):
        if not self.accept(v):
            raise IRUnsupported("expected %r at %r in: %s" % (v, self.t[self.i:self.i + 5], self.line))


def unq(name):
    # strip sigil and quotes
    n = name[1:]
    if n.startswith('"'):
        n = n[1:-1]
    return n


# ----------------------------------------------------------------------------- values
class Val:
    """operand: kind in local, global, int, fp, null, undef, zero, cstr, agg, cexpr, md, label"""
    __slots__ = ("k", "ty", "v", "ops", "extra")

    def __init__(self, k, ty, v=None, ops=None, extra=None):
        self.k = k
        self.ty = ty
        self.v = v
        self.ops = ops
        self.extra = extra

    def __repr__(self):
        return "Val(%s,%r,%r)" % (self.k, self.ty, self.v if self.ops is None else self.ops)


class Instr:
    __slots__ = ("op", "dest", "ty", "ops", "x", "line")

    def __init__(self, op, dest, ty, ops, x=None, line=""):
        self.op = op
        self.dest = dest
        self.ty = ty
        self.ops = ops
        self.x = x or {}
        self.line = line

    def __repr__(self):
        return self.line


class Block:
    def __init__(self, name):
        self.name = name
        self.instrs = []


class Function:
    def __init__(self, name, ret, params):
        self.name = name
        self.ret = ret
        self.params = params  # list of (Ty, name, attrs)
        self.blocks = {}
        self.order = []
        self.is_decl = False
        self.vararg = False


class Global:
    def __init__(self, name, ty, init, const, align):
        self.name = name
        self.ty = ty
        self.init = init
        self.const = const
        self.align = align


class Module:
    def __init__(self):
        self.named = {}
        self.globals = {}
        self.funcs = {}
        self.datalayout = ""

    # ---- layout (x86_64 SysV as in the datalayout string clang emits)
    def resolve(self, ty):
        while ty.k == "named":
            if ty.name not in self.named:
                raise IRUnsupported("opaque type %s" % ty.name)
            ty = self.named[ty.name]
            if ty is None:
                raise IRUnsupported("opaque type")
        return ty

    def sizeof(self, ty):
        ty = self.resolve(ty)
        if ty.k == "int":
            b = (ty.bits + 7) // 8
            # storage size rounded to alignment
            a = self.alignof(ty)
            return (b + a - 1) // a * a
        if ty.k == "fp":
            return FP_STORE_BYTES[ty.name]
        if ty.k == "ptr":
            return 8
        if ty.k == "array":
            return ty.n * self.sizeof(ty.elem)
        if ty.k == "struct":
            off = 0
            al = 1
            for f in ty.fields:
                a = 1 if ty.packed else self.alignof(f)
                al = max(al, a)
                off = (off + a - 1) // a * a
                off += self.sizeof(f)
            return (off + al - 1) // al * al if off else 0
        raise IRUnsupported("sizeof %r" % ty)

    def alignof(self, ty):
        ty = self.resolve(ty)
        if ty.k == "int":
            b = (ty.bits + 7) // 8
            a = 1
            while a < b and a < 16:
                a *= 2
            return min(a, 16) if ty.bits > 64 else min(a, 8)
        if ty.k == "fp":
            return {"half": 2, "float": 4, "double": 8, "x86_fp80": 16, "fp128": 16}[ty.name]
        if ty.k == "ptr":
            return 8
        if ty.k == "array":
            return self.alignof(ty.elem)
        if ty.k == "struct":
            if ty.packed:
                return 1
            return max([self.alignof(f) for f in ty.fields] or [1])
        raise IRUnsupported("alignof %r" % ty)

    def field_offset(self, ty, idx):
        ty = self.resolve(ty)
        off = 0
        for i, f in enumerate(ty.fields):
            a = 1 if ty.packed else self.alignof(f)
            off = (off + a - 1) // a * a
            if i == idx:
                return off
            off += self.sizeof(f)
        raise IRUnsupported("field index")


PARAM_ATTRS = {"noundef", "signext", "zeroext", "nonnull", "nocapture", "readonly", "readnone", "writeonly",
               "noalias", "returned", "immarg", "nofree", "inreg", "nest", "swiftself", "noundef", "nosync"}
PARAM_ATTRS_ARG = {"align", "dereferenceable", "dereferenceable_or_null"}
PARAM_ATTRS_TY = {"sret", "byval", "byref", "inalloca", "preallocated", "elementtype"}
LINKAGE_ETC = {"private", "internal", "available_externally", "linkonce", "weak", "common", "appending",
               "extern_weak", "linkonce_odr", "weak_odr", "external", "dso_local", "dso_preemptable",
               "default", "hidden", "protected", "unnamed_addr", "local_unnamed_addr", "thread_local",
               "externally_initialized", "fastcc", "ccc", "coldcc", "noundef", "signext", "zeroext",
               "nonnull", "noalias", "tail", "musttail", "notail"}
FAST_MATH = {"fast", "nnan", "ninf", "nsz", "arcp", "contract", "afn", "reassoc"}

BINOPS = {"add", "sub", "mul", "udiv", "sdiv", "urem", "srem", "shl", "lshr", "ashr", "and", "or", "xor",
          "fadd", "fsub", "fmul", "fdiv", "frem"}
CASTS = {"trunc", "zext", "sext", "fptrunc", "fpext", "fptoui", "fptosi", "uitofp", "sitofp", "ptrtoint",
         "inttoptr", "bitcast", "addrspacecast"}


class Parser:
    def __init__(self, text):
        self.mod = Module()
        self.text = text

    # ---- types
    def parse_type(self, t):
        k, v = t.next()
        if k == "word":
            if v[0] == "i" and v[1:].isdigit():
                ty = IntTy(int(v[1:]))
            elif v in FP_FORMATS:
                ty = Ty("fp", name=v)
            elif v == "void":
                ty = VOID
            elif v == "label":
                ty = LABEL
            elif v == "metadata":
                ty = METADATA
            elif v == "ptr":
                ty = Ty("ptr", elem=IntTy(8))
            elif v == "opaque":
                return None
            else:
                raise IRUnsupported("type word %s in %s" % (v, t.line))
        elif k == "local":
            ty = Ty("named", name=unq(v))
        elif v == "{":
            fields = []
            if not t.accept("}"):
                while True:
                    fields.append(self.parse_type(t))
                    if t.accept("}"):
                        break
                    t.expect(",")
            ty = Ty("struct", fields=fields)
        elif v == "<":
            if t.peekv() == "{":
                t.next()
                fields = []
                if not t.accept("}"):
                    while True:
                        fields.append(self.parse_type(t))
                        if t.accept("}"):
                            break
                        t.expect(",")
                t.expect(">")
                ty = Ty("struct", fields=fields, packed=True)
            else:
                raise IRUnsupported("vector type in %s" % t.line)
        elif v == "[":
            n = int(t.next()[1])
            if t.next()[1] != "x":
                raise IRUnsupported("array type")
            e = self.parse_type(t)
            t.expect("]")
            ty = Ty("array", n=n, elem=e)
        else:
            raise IRUnsupported("type at %r in %s" % (v, t.line))
        while True:
            if t.accept("*"):
                ty = Ty("ptr", elem=ty)
            elif t.peekv() == "addrspace":
                t.next(); t.expect("("); t.next(); t.expect(")")
            elif t.peekv() == "(":
                t.next()
                params = []
                vararg = False
                if not t.accept(")"):
                    while True:
                        if t.accept("..."):
                            vararg = True
                        else:
                            params.append(self.parse_type(t))
                            self.skip_param_attrs(t)
                        if t.accept(")"):
                            break
                        t.expect(",")
                ty = Ty("func", ret=ty, params=params, vararg=vararg)
            else:
                break
        return ty

    def skip_param_attrs(self, t):
        attrs = {}
        while True:
            v = t.peekv()
            if v in PARAM_ATTRS:
                attrs[v] = True
                t.next()
            elif v in PARAM_ATTRS_ARG:
                t.next()
                if t.accept("("):
                    attrs[v] = int(t.next()[1]); t.expect(")")
                else:
                    attrs[v] = int(t.next()[1])
            elif v in PARAM_ATTRS_TY:
                t.next(); t.expect("(")
                attrs[v] = self.parse_type(t)
                t.expect(")")
            else:
                return attrs

    # ---- values
    def parse_typed_value(self, t):
        ty = self.parse_type(t)
        self.skip_param_attrs(t)
        return self.parse_value(t, ty)

    def parse_value(self, t, ty):
        k, v = t.next()
        if k == "local":
            return Val("local", ty, unq(v))
        if k == "glob":
            return Val("global", ty, unq(v))
        if k == "int":
            if ty.k == "fp":
                return Val("fp", ty, ("dec", v))
            return Val("int", ty, int(v))
        if k == "float":
            return Val("fp", ty, ("dec", v))
        if k == "hex":
            if ty.k == "fp":
                return Val("fp", ty, ("hex", v))
            raise IRUnsupported("hex int")
        if k == "cstr":
            return Val("cstr", ty, decode_cstr(v))
        if k == "md":
            return Val("md", ty, v)
        if k == "word":
            if v == "true":
                return Val("int", ty, 1)
            if v == "false":
                return Val("int", ty, 0)
            if v == "null":
                return Val("null", ty)
            if v in ("undef", "poison"):
                return Val("undef", ty)
            if v == "zeroinitializer":
                return Val("zero", ty)
            if v == "getelementptr":
                t.accept("inbounds")
                t.expect("(")
                sty = self.parse_type(t)
                t.expect(",")
                ops = [self.parse_typed_value(t)]
                while t.accept(","):
                    t.accept("inrange")
                    ops.append(self.parse_typed_value(t))
                t.expect(")")
                return Val("cexpr", ty, "getelementptr", ops, extra=sty)
            if v in CASTS:
                t.expect("(")
                src = self.parse_typed_value(t)
                if t.next()[1] != "to":
                    raise IRUnsupported("cast cexpr")
                dty = self.parse_type(t)
                t.expect(")")
                return Val("cexpr", dty, v, [src])
            if v in BINOPS:
                while t.peekv() in ("nsw", "nuw", "exact"):
                    t.next()
                t.expect("(")
                a = self.parse_typed_value(t)
                t.expect(",")
                b = self.parse_typed_value(t)
                t.expect(")")
                return Val("cexpr", ty, v, [a, b])
            if v in ("icmp", "fcmp"):
                pred = t.next()[1]
                t.expect("(")
                a = self.parse_typed_value(t)
                t.expect(",")
                b = self.parse_typed_value(t)
                t.expect(")")
                return Val("cexpr", ty, v, [a, b], extra=pred)
            if v == "select":
                t.expect("(")
                a = self.parse_typed_value(t); t.expect(",")
                b = self.parse_typed_value(t); t.expect(",")
                c = self.parse_typed_value(t); t.expect(")")
                return Val("cexpr", ty, v, [a, b, c])
            raise IRUnsupported("value word %s in %s" % (v, t.line))
        if v == "{" or v == "[":
            close = "}" if v == "{" else "]"
            ops = []
            if not t.accept(close):
                while True:
                    ops.append(self.parse_typed_value(t))
                    if t.accept(close):
                        break
                    t.expect(",")
            return Val("agg", ty, None, ops)
        if v == "<":
            if t.peekv() == "{":
                t.next()
                ops = []
                if not t.accept("}"):
                    while True:
                        ops.append(self.parse_typed_value(t))
                        if t.accept("}"):
                            break
                        t.expect(",")
                t.expect(">")
                return Val("agg", ty, None, ops)
            raise IRUnsupported("vector constant")
        raise IRUnsupported("value %r in %s" % (v, t.line))

    # ---- module
    def parse(self):
        lines = self.text.split("\n")
        i = 0
        n = len(lines)
        mod = self.mod
        while i < n:
            line = lines[i]
            s = line.strip()
            i += 1
            if not s or s.startswith(";"):
                continue
            if s.startswith("target datalayout"):
                mod.datalayout = s
                continue
            if s.startswith(("target ", "source_filename", "attributes ", "!", "module asm")):
                continue
            if s.startswith("$"):
                continue
            if s.startswith("%") and " = type " in s:
                t = Toks(tokenize(s), s)
                name = unq(t.next()[1])
                t.expect("=")
                t.next()  # type
                mod.named[name] = self.parse_type(t)
                continue
            if s.startswith("@"):
                self.parse_global(s)
                continue
            if s.startswith("declare"):
                self.parse_fn_header(s, decl=True)
                continue
            if s.startswith("define"):
                fn = self.parse_fn_header(s, decl=False)
                body = []
                while i < n and lines[i].strip() != "}":
                    body.append(lines[i])
                    i += 1
                i += 1
                self.parse_body(fn, body)
                continue
            raise IRUnsupported("top-level: " + s[:80])
        return mod

    def parse_global(self, s):
        t = Toks(tokenize(s), s)
        name = unq(t.next()[1])
        t.expect("=")
        const = False
        external = False
        while True:
            v = t.peekv()
            if v in ("global", "constant"):
                const = v == "constant"
                t.next()
                break
            if v in ("external", "extern_weak", "available_externally"):
                external = True
            if v == "alias" or v == "ifunc":
                return
            if v == "thread_local" and t.peekv(1) == "(":
                t.next(); t.next(); t.next(); t.next()
                continue
            if v == "addrspace":
                t.next(); t.expect("("); t.next(); t.expect(")")
                continue
            if v in LINKAGE_ETC:
                t.next()
                continue
            raise IRUnsupported("global: " + s[:80])
        ty = self.parse_type(t)
        init = None
        if not t.eof() and t.peekv() != ",":
            init = self.parse_value(t, ty)
        align = None
        while not t.eof():
            if t.accept(","):
                if t.peekv() == "align":
                    t.next()
                    align = int(t.next()[1])
                else:
                    t.next()
                    if t.peek()[0] in ("str", "md", "comdat"):
                        t.next()
            else:
                t.next()
        self.mod.globals[name] = Global(name, ty, init, const, align)

    def parse_fn_header(self, s, decl):
        t = Toks(tokenize(s), s)
        t.next()  # define/declare
        while True:
            v = t.peekv()
            if v in LINKAGE_ETC or v in PARAM_ATTRS:
                t.next()
            elif v in PARAM_ATTRS_ARG:
                t.next()
                if t.accept("("):
                    t.next(); t.expect(")")
                else:
                    t.next()
            else:
                break
        # return type: parse base type but a following '(' is the param list only after the @name
        ret = self.parse_type_noparen(t)
        k, v = t.next()
        if k != "glob":
            raise IRUnsupported("fn header: " + s[:100])
        name = unq(v)
        t.expect("(")
        params = []
        vararg = False
        if not t.accept(")"):
            while True:
                if t.accept("..."):
                    vararg = True
                else:
                    pty = self.parse_type(t)
                    attrs = self.skip_param_attrs(t)
                    pname = None
                    if t.peek()[0] == "local":
                        pname = unq(t.next()[1])
                    params.append((pty, pname, attrs))
                if t.accept(")"):
                    break
                t.expect(",")
        fn = Function(name, ret, params)
        fn.vararg = vararg
        fn.is_decl = decl
        # unnamed params get numbers 0..
        ctr = 0
        newp = []
        for (pty, pname, attrs) in params:
            if pname is None:
                pname = str(ctr)
                ctr += 1
            elif pname.isdigit():
                ctr = int(pname) + 1
            newp.append((pty, pname, attrs))
        fn.params = newp
        fn._first_label = str(ctr)
        if name not in self.mod.funcs or not decl:
            self.mod.funcs[name] = fn
        return fn

    def parse_type_noparen(self, t):
        # like parse_type but never consumes a function-type '(' (ret type of a header)
        save = t.i
        ty = None
        k, v = t.next()
        t.i = save
        # parse base & pointer stars manually
        depth_start = t.i
        # Use parse_type but temporarily hide '(' following: find position of the function name token
        # The return type never contains '@', so find the first glob token.
        j = t.i
        while t.t[j][0] != "glob":
            j += 1
        sub = Toks(t.t[t.i:j], t.line)
        ty = self.parse_type(sub)
        t.i = t.i + sub.i
        return ty

    def parse_body(self, fn, lines):
        cur = None
        first = True
        for raw in lines:
            s = raw.strip()
            if not s or s.startswith(";"):
                continue
            m = re.match(r'^([-a-zA-Z$._0-9]+|"(?:[^"\\]|\\.)*"):', s)
            if m and not raw.startswith("  "):
                lab = m.group(1)
                if lab.startswith('"'):
                    lab = lab[1:-1]
                cur = Block(lab)
                fn.blocks[lab] = cur
                fn.order.append(lab)
                first = False
                continue
            if cur is None:
                cur = Block(fn._first_label)
                fn.blocks[cur.name] = cur
                fn.order.append(cur.name)
            # continuation lines (invoke "to label", switch cases, landingpad clauses)
            if cur.instrs and (s.startswith("to label") or s.startswith("cleanup") or s.startswith("catch ")
                               or s.startswith("filter ") or cur.instrs[-1].x.get("_open")):
                self.continue_instr(cur.instrs[-1], s)
                continue
            cur.instrs.append(self.parse_instr(s))

    def continue_instr(self, ins, s):
        if ins.op == "switch":
            if s == "]":
                ins.x["_open"] = False
                return
            t = Toks(tokenize(s), s)
            while not t.eof():
                if t.peekv() == "]":
                    ins.x["_open"] = False
                    break
                c = self.parse_typed_value(t)
                t.expect(",")
                t.expect("label")
                lab = unq(t.next()[1])
                ins.x["cases"].append((c.v, lab))
            return
        if ins.op == "invoke":
            t = Toks(tokenize(s), s)
            t.expect("to"); t.expect("label")
            ins.x["normal"] = unq(t.next()[1])
            t.expect("unwind"); t.expect("label")
            ins.x["unwind"] = unq(t.next()[1])
            return
        if ins.op == "landingpad":
            return
        raise IRUnsupported("continuation: " + s)

    def parse_instr(self, s):
        t = Toks(tokenize(s), s)
        dest = None
        if t.peek()[0] == "local" and t.peekv(1) == "=":
            dest = unq(t.next()[1])
            t.next()
        op = t.next()[1]
        I = lambda ty, ops, **x: Instr(op, dest, ty, ops, x, s)
        if op in ("tail", "musttail", "notail"):
            op = t.next()[1]
        if op in BINOPS:
            flags = []
            while t.peekv() in ("nsw", "nuw", "exact") or t.peekv() in FAST_MATH:
                flags.append(t.next()[1])
            ty = self.parse_type(t)
            a = self.parse_value(t, ty)
            t.expect(",")
            b = self.parse_value(t, ty)
            return I(ty, [a, b], flags=flags)
        if op == "fneg":
            while t.peekv() in FAST_MATH:
                t.next()
            ty = self.parse_type(t)
            return I(ty, [self.parse_value(t, ty)])
        if op in CASTS:
            a = self.parse_typed_value(t)
            if t.next()[1] != "to":
                raise IRUnsupported("cast: " + s)
            ty = self.parse_type(t)
            return I(ty, [a])
        if op in ("icmp", "fcmp"):
            while t.peekv() in FAST_MATH:
                t.next()
            pred = t.next()[1]
            ty = self.parse_type(t)
            a = self.parse_value(t, ty)
            t.expect(",")
            b = self.parse_value(t, ty)
            return I(IntTy(1), [a, b], pred=pred)
        if op == "select":
            while t.peekv() in FAST_MATH:
                t.next()
            c = self.parse_typed_value(t); t.expect(",")
            a = self.parse_typed_value(t); t.expect(",")
            b = self.parse_typed_value(t)
            return I(a.ty, [c, a, b])
        if op == "phi":
            while t.peekv() in FAST_MATH:
                t.next()
            ty = self.parse_type(t)
            inc = []
            while True:
                t.expect("[")
                v = self.parse_value(t, ty)
                t.expect(",")
                lab = unq(t.next()[1])
                t.expect("]")
                inc.append((v, lab))
                if not t.accept(","):
                    break
            return I(ty, [], incoming=inc)
        if op == "br":
            if t.accept("label"):
                return I(VOID, [], targets=[unq(t.next()[1])])
            c = self.parse_typed_value(t)
            t.expect(","); t.expect("label")
            a = unq(t.next()[1])
            t.expect(","); t.expect("label")
            b = unq(t.next()[1])
            return I(VOID, [c], targets=[a, b])
        if op == "switch":
            c = self.parse_typed_value(t)
            t.expect(","); t.expect("label")
            d = unq(t.next()[1])
            t.expect("[")
            ins = I(VOID, [c], default=d, cases=[], _open=True)
            while not t.eof():
                if t.accept("]"):
                    ins.x["_open"] = False
                    break
                cv = self.parse_typed_value(t)
                t.expect(","); t.expect("label")
                ins.x["cases"].append((cv.v, unq(t.next()[1])))
            return ins
        if op == "ret":
            if t.accept("void"):
                return I(VOID, [])
            v = self.parse_typed_value(t)
            return I(v.ty, [v])
        if op == "unreachable":
            return I(VOID, [])
        if op == "resume":
            return I(VOID, [self.parse_typed_value(t)])
        if op == "alloca":
            t.accept("inalloca")
            ty = self.parse_type(t)
            cnt = None
            align = None
            while t.accept(","):
                if t.accept("align"):
                    align = int(t.next()[1])
                elif t.peekv() == "addrspace":
                    t.next(); t.expect("("); t.next(); t.expect(")")
                else:
                    cnt = self.parse_typed_value(t)
            return I(Ty("ptr", elem=ty), [cnt] if cnt else [], aty=ty, align=align)
        if op == "load":
            t.accept("atomic"); t.accept("volatile")
            ty = self.parse_type(t)
            t.expect(",")
            p = self.parse_typed_value(t)
            return I(ty, [p])
        if op == "store":
            t.accept("atomic"); t.accept("volatile")
            v = self.parse_typed_value(t)
            t.expect(",")
            p = self.parse_typed_value(t)
            return I(VOID, [v, p])
        if op == "getelementptr":
            inb = t.accept("inbounds")
            sty = self.parse_type(t)
            t.expect(",")
            ops = [self.parse_typed_value(t)]
            while t.accept(","):
                ops.append(self.parse_typed_value(t))
            return I(None, ops, sty=sty, inbounds=inb)
        if op in ("extractvalue", "insertvalue"):
            a = self.parse_typed_value(t)
            ops = [a]
            if op == "insertvalue":
                t.expect(",")
                ops.append(self.parse_typed_value(t))
            idx = []
            while t.accept(","):
                if t.peek()[0] != "int":
                    break
                idx.append(int(t.next()[1]))
            return I(None, ops, idx=idx)
        if op == "freeze":
            v = self.parse_typed_value(t)
            return I(v.ty, [v])
        if op in ("call", "invoke"):
            while t.peekv() in FAST_MATH or t.peekv() in LINKAGE_ETC or t.peekv() in PARAM_ATTRS:
                t.next()
            while t.peekv() in PARAM_ATTRS_ARG:
                t.next()
                if t.accept("("):
                    t.next(); t.expect(")")
                else:
                    t.next()
            # return type (may be a function pointer type for varargs callee "i32 (i8*, ...) @printf")
            rty = self.parse_type(t)
            if rty.k == "func":
                fty = rty
                rty = fty.ret
            elif rty.k == "ptr" and rty.elem.k == "func":
                rty = rty.elem.ret
            k, v = t.next()
            if k == "glob":
                callee = Val("global", None, unq(v))
            elif k == "local":
                callee = Val("local", None, unq(v))
            elif k == "word" and v in CASTS:
                # call via constant-expression cast of a function
                t.i -= 1
                callee = self.parse_value(t, None)
            else:
                raise IRUnsupported("callee: " + s)
            t.expect("(")
            args = []
            if not t.accept(")"):
                while True:
                    args.append(self.parse_typed_value(t))
                    if t.accept(")"):
                        break
                    t.expect(",")
            return I(rty, args, callee=callee)
        if op == "landingpad":
            ty = self.parse_type(t)
            return I(ty, [])
        if op == "fence":
            return I(VOID, [])
        raise IRUnsupported("instruction: " + s)


def decode_cstr(tok):
    body = tok[2:-1]
    out = bytearray()
    i = 0
    while i < len(body):
        c = body[i]
        if c == "\\":
            if body[i + 1] == "\\":
                out.append(92)
                i += 2
            else:
                out.append(int(body[i + 1:i + 3], 16))
                i += 3
        else:
            out.append(ord(c))
            i += 1
    return bytes(out)


def parse_module(text):
    return Parser(text).parse()


if __name__ == "__main__":
    import sys
    m = parse_module(open(sys.argv[1]).read())
    for f in m.funcs.values():
        if not f.is_decl:
            print(f.name, len(f.order), "blocks", sum(len(b.instrs) for b in f.blocks.values()), "instrs")
