"""Polymorphic exact arithmetic helpers for oracles.

An oracle is written once and evaluated on
  * python ints / bools / Fractions (replay, oracle self-test),
  * z3 Int terms            (INT encoding),
  * z3 signed bit-vectors wide enough that nothing overflows (BV encoding; width chosen by the spec).
Python operators + - * and comparisons work on all three (z3py's BitVec comparisons are signed).
"""
import z3


def _sym(*xs):
    return any(isinstance(x, z3.ExprRef) for x in xs)


def _isbv(*xs):
    return any(isinstance(x, z3.BitVecRef) for x in xs)


_CTX = ["py", None]


def set_ctx(mode, W=None):
    """sort that bare python ints are lifted to when both branches of a symbolic ite are python ints"""
    _CTX[0], _CTX[1] = mode, W


def lift(v):
    if isinstance(v, int) and not isinstance(v, bool):
        if _CTX[0] == "bv":
            return z3.BitVecVal(v, _CTX[1])
        if _CTX[0] == "int":
            return z3.IntVal(v)
    return v


def ite(c, a, b):
    if isinstance(c, bool):
        return a if c else b
    if isinstance(a, int) and isinstance(b, int) and not isinstance(a, bool) and not isinstance(b, bool):
        a, b = lift(a), lift(b)
    if isinstance(c, z3.BoolRef) and z3.is_true(c):
        return a
    if isinstance(c, z3.BoolRef) and z3.is_false(c):
        return b
    a, b = lift2(a, b)
    if isinstance(a, bool):
        a = z3.BoolVal(a)
    if isinstance(b, bool):
        b = z3.BoolVal(b)
    return z3.If(c, a, b)


def lift2(a, b):
    """make python ints compatible with the z3 sort of the other operand"""
    if isinstance(a, int) and not isinstance(a, bool) and isinstance(b, z3.BitVecRef):
        a = z3.BitVecVal(a, b.size())
    elif isinstance(b, int) and not isinstance(b, bool) and isinstance(a, z3.BitVecRef):
        b = z3.BitVecVal(b, a.size())
    elif isinstance(a, int) and not isinstance(a, bool) and isinstance(b, z3.ArithRef):
        a = z3.IntVal(a)
    elif isinstance(b, int) and not isinstance(b, bool) and isinstance(a, z3.ArithRef):
        b = z3.IntVal(b)
    return a, b


def And(*xs):
    xs = [x for x in xs if x is not True]
    if any(x is False for x in xs):
        return False
    if not xs:
        return True
    if len(xs) == 1:
        return xs[0]
    return z3.And(*xs)


def Or(*xs):
    xs = [x for x in xs if x is not False]
    if any(x is True for x in xs):
        return True
    if not xs:
        return False
    if len(xs) == 1:
        return xs[0]
    return z3.Or(*xs)


def Not(x):
    if isinstance(x, bool):
        return not x
    return z3.Not(x)


def Implies(a, b):
    return Or(Not(a), b)


def Iff(a, b):
    if isinstance(a, bool) and isinstance(b, bool):
        return a == b
    if isinstance(a, bool):
        return b if a else Not(b)
    if isinstance(b, bool):
        return a if b else Not(a)
    return a == b


def eq(a, b):
    a, b = lift2(a, b)
    return a == b


def ne(a, b):
    return Not(eq(a, b))


def tdiv(a, b):
    """truncating division, b != 0"""
    if not _sym(a, b):
        q = abs(a) // abs(b)
        return q if (a < 0) == (b < 0) else -q
    a, b = lift2(a, b)
    if _isbv(a, b):
        return a / b  # bvsdiv truncates
    return z3.If(a >= 0,
                 z3.If(b > 0, a / b, -(a / (-b))),
                 z3.If(b > 0, -((-a) / b), (-a) / (-b)))


def trem(a, b):
    if not _sym(a, b):
        return a - b * tdiv(a, b)
    a, b = lift2(a, b)
    if _isbv(a, b):
        return z3.SRem(a, b)
    return a - b * tdiv(a, b)


def fdiv(a, b):
    """floor division, b != 0"""
    if not _sym(a, b):
        return a // b
    a, b = lift2(a, b)
    if _isbv(a, b):
        q = a / b
        r = z3.SRem(a, b)
        return z3.If(z3.And(r != 0, (r < 0) != (b < 0)), q - 1, q)
    return z3.If(b > 0, a / b, (-a) / (-b))


def absv(a):
    if not _sym(a):
        return abs(a)
    return z3.If(a < 0, -a, a)


def sgn(a):
    if not _sym(a):
        return (a > 0) - (a < 0)
    if _isbv(a):
        n = a.size()
        return z3.If(a > 0, z3.BitVecVal(1, n), z3.If(a < 0, z3.BitVecVal(-1, n), z3.BitVecVal(0, n)))
    return z3.If(a > 0, z3.IntVal(1), z3.If(a < 0, z3.IntVal(-1), z3.IntVal(0)))


def shl(a, k):
    """a * 2^k for a python int k >= 0"""
    return a * (1 << k)


def shr_floor(a, k):
    """floor(a / 2^k), python int k >= 0"""
    if not _sym(a):
        return a >> k
    if _isbv(a):
        return a >> k
    return a / (1 << k)


def in_range(v, lo, hi):
    return And(v >= lo, v <= hi)


def bitlen_nonneg(v, maxbits):
    """bit length of v >= 0 (ladder)"""
    if not _sym(v):
        return v.bit_length()
    r = 0
    for k in range(maxbits):
        r = ite(v >= (1 << k), k + 1, r)
    return r


def pyval(model, t):
    """python value of a z3 term under a model (ints signed for BV as given)"""
    v = model.eval(t, model_completion=True)
    return v
