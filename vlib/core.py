"""Kernel specifications, C++ code generation, builds (clang IR / g++ and clang replay runners)."""
import os
import re
import subprocess
import shutil
import hashlib

REPO = os.environ.get("VERIF_REPO", "/repo")
INC = os.path.join(REPO, "include")

# name -> (C++ type, bits, signed, kind)
CT = {
    "i8": ("std::int8_t", 8, True, "int"), "u8": ("std::uint8_t", 8, False, "int"),
    "i16": ("std::int16_t", 16, True, "int"), "u16": ("std::uint16_t", 16, False, "int"),
    "i32": ("std::int32_t", 32, True, "int"), "u32": ("std::uint32_t", 32, False, "int"),
    "i64": ("std::int64_t", 64, True, "int"), "u64": ("std::uint64_t", 64, False, "int"),
    "i128": ("__int128", 128, True, "int"), "u128": ("unsigned __int128", 128, False, "int"),
    # distinct built-in types of the same width (own template specialisations, e.g. in <cnl/bit.h>)
    "ull": ("unsigned long long", 64, False, "int"), "ll": ("long long", 64, True, "int"),
    "uchar": ("unsigned char", 8, False, "int"), "schar": ("signed char", 8, True, "int"),
    "bool": ("bool", 1, False, "bool"),
    "f32": ("float", 32, True, "fp"), "f64": ("double", 64, True, "fp"), "f80": ("long double", 80, True, "fp"),
}
FPNAME = {"f32": "float", "f64": "double", "f80": "x86_fp80"}
FPBYTES = {"f32": 4, "f64": 8, "f80": 10}


def cpp(t):
    return CT[t][0]


def bits(t):
    return CT[t][1]


def signed(t):
    return CT[t][2]


def tmin(t):
    return -(1 << (bits(t) - 1)) if signed(t) else 0


def tmax(t):
    return (1 << (bits(t) - 1)) - 1 if signed(t) else (1 << bits(t)) - 1


class Arg:
    """kind: 'val' scalar by value (<=64 bit ints, floats), 'ref' scalar by const pointer (128 bit),
    'buf' byte buffer (in/out), 'arr' array of scalars (in/out)"""

    def __init__(self, name, ctype, kind=None, n=None, out=False, init="sym"):
        self.name = name
        self.ctype = ctype
        if kind is None:
            kind = "ref" if (CT[ctype][3] == "int" and bits(ctype) > 64) else "val"
        self.kind = kind
        self.n = n
        self.out = out
        self.init = init  # 'sym' symbolic contents, 'uninit' for outputs


class Kernel:
    def __init__(self, name, args, ret, body, *, decls="", consts=None, mode="bv", W=None, views=("gcc",),
                 pre=None, claims=None, tags=None, unwind=None, ndebug=False, ref_body=None, desc="",
                 max_paths=None, vectors=None, allow_ub=False, timeout=None, alt_modes=(), splits=None, prune_timeout_ms=None, guided_seeds=None, terminates=False, arg_ranges=None):
        self.name = name
        self.args = [a if isinstance(a, Arg) else Arg(*a) for a in args]
        self.ret = ret
        self.body = body
        self.decls = decls
        self.consts = consts or {}
        self.mode = mode
        self.W = W
        self.views = views
        self.pre = pre
        self.claims = claims
        self.tags = tags or {}
        self.unwind = unwind
        self.ndebug = ndebug
        self.ref_body = ref_body
        self.desc = desc
        self.max_paths = max_paths
        self.vectors = vectors
        self.allow_ub = allow_ub
        self.timeout = timeout
        self.alt_modes = alt_modes
        self.splits = splits
        self.prune_timeout_ms = prune_timeout_ms
        self.guided_seeds = guided_seeds
        self.guided_random = None
        self.arg_ranges = arg_ranges or {}  # {arg: (lo, hi)} interval hints for INT mode; the precondition must imply them
        self.terminates = terminates  # termination claim: a feasible path beyond the unwinding bound is replayed; no return within 5 s = violation

    def params_cpp(self):
        ps = []
        for a in self.args:
            if a.kind == "val":
                ps.append("%s %s" % (cpp(a.ctype), a.name))
            elif a.kind == "ref":
                ps.append("%s const* %s_p" % (cpp(a.ctype), a.name))
            elif a.kind in ("buf", "arr"):
                ps.append("%s* %s" % (cpp(a.ctype), a.name))
        return ", ".join(ps)

    def wide_ret(self):
        return bool(self.ret) and CT[self.ret][3] == "int" and bits(self.ret) > 64

    def fn_cpp(self, fname, body):
        pre = "".join("    auto const %s = *%s_p;\n" % (a.name, a.name) for a in self.args if a.kind == "ref")
        rt = cpp(self.ret) if self.ret else "void"
        if self.wide_ret():
            # 128-bit results are written through a pointer (extern "C" would split them into two i64)
            names = ", ".join((a.name + "_p") if a.kind == "ref" else a.name for a in self.args)
            return ('static inline __attribute__((always_inline)) %s %s_impl(%s) {\n%s%s\n}\n'
                    'extern "C" __attribute__((noinline)) void %s(%s%s%s* ret_out) {\n    *ret_out = %s_impl(%s);\n}\n' % (
                        rt, fname, self.params_cpp(), pre, body,
                        fname, self.params_cpp(), ", " if self.args else "", rt, fname, names))
        return 'extern "C" __attribute__((noinline)) %s %s(%s) {\n%s%s\n}\n' % (
            rt, fname, self.params_cpp(), pre, body)

    def source(self):
        out = []
        if self.decls:
            out.append(self.decls)
        out.append(self.fn_cpp(self.name, self.body))
        if self.ref_body is not None:
            out.append(self.fn_cpp(self.name + "_ref", self.ref_body))
        for cname, expr in self.consts.items():
            out.append('extern "C" const __int128 %s_c_%s = static_cast<__int128>(%s);\n' % (self.name, cname, expr))
        return "".join(out)

    def runner_cpp(self):
        def one(fname):
            L = ["static void run_%s(char** av) {\n" % fname]
            call = []
            for i, a in enumerate(self.args):
                if a.kind == "val":
                    L.append("    %s %s{}; rd(av[%d], &%s, sizeof %s);\n" % (cpp(a.ctype), a.name, i, a.name, a.name))
                    call.append(a.name)
                elif a.kind == "ref":
                    L.append("    %s %s{}; rd(av[%d], &%s, sizeof %s);\n" % (cpp(a.ctype), a.name, i, a.name, a.name))
                    call.append("&" + a.name)
                else:
                    L.append("    %s %s[%d] = {}; rd(av[%d], %s, sizeof %s);\n" % (
                        cpp(a.ctype), a.name, a.n, i, a.name, a.name))
                    call.append(a.name)
            if self.wide_ret():
                L.append("    %s r{}; %s(%s);\n    std::printf(\"RET \"); wr(&r, sizeof r);\n" % (
                    cpp(self.ret), fname, ", ".join(call + ["&r"])))
            elif self.ret:
                L.append("    auto r = %s(%s);\n    std::printf(\"RET \"); wr(&r, sizeof r);\n" % (fname, ", ".join(call)))
            else:
                L.append("    %s(%s);\n    std::printf(\"RET -\");\n" % (fname, ", ".join(call)))
            for a in self.args:
                if a.out:
                    L.append("    std::printf(\" \"); wr(%s, sizeof %s);\n" % (a.name, a.name))
            L.append("    std::printf(\"\\n\");\n}\n")
            return "".join(L)
        s = one(self.name)
        if self.ref_body is not None:
            s += one(self.name + "_ref")
        return s

    def fnames(self):
        return [self.name] + ([self.name + "_ref"] if self.ref_body is not None else [])


RUNNER_PROLOG = r'''
#include <cstdio>
#include <cstring>
#include <cstdlib>
#include <string>
#include <typeinfo>
#include <exception>
#include <stdexcept>
#include <unistd.h>
#include <sys/wait.h>
static int hexv(char c) { return c <= '9' ? c - '0' : (c | 32) - 'a' + 10; }
static void rd(char const* s, void* p, std::size_t n) {
    auto* b = static_cast<unsigned char*>(p);
    std::size_t len = std::strlen(s);
    for (std::size_t i = 0; i < n; ++i) b[i] = (2 * i + 1 < len) ? static_cast<unsigned char>(hexv(s[2 * i]) * 16 + hexv(s[2 * i + 1])) : 0;
}
static void wr(void const* p, std::size_t n) {
    auto const* b = static_cast<unsigned char const*>(p);
    for (std::size_t i = 0; i < n; ++i) std::printf("%02x", b[i]);
}
'''

RUNNER_EPILOG = r'''
int main() {
    static char line[1 << 16];
    while (std::fgets(line, sizeof line, stdin)) {
        char* av[64]; int ac = 0;
        for (char* t = std::strtok(line, " \n"); t && ac < 64; t = std::strtok(nullptr, " \n")) av[ac++] = t;
        if (ac == 0) continue;
        void (*fn)(char**) = nullptr;
        for (auto const& e : table) if (!std::strcmp(e.name, av[0])) fn = e.fn;
        if (!fn) { std::printf("NOFN\n"); std::fflush(stdout); continue; }
        int pfd[2];
        if (pipe(pfd)) return 3;
        std::fflush(stdout);
        pid_t pid = fork();
        if (pid == 0) {
            close(pfd[0]); dup2(pfd[1], 2); close(pfd[1]);
            alarm(5);  // a call that does not return within 5 s is reported as SIG 14 (non-termination witness)
            try { fn(av + 1); }
            catch (std::exception const& e) { std::printf("THROW %s %s\n", typeid(e).name(), e.what()); }
            catch (...) { std::printf("THROW ?\n"); }
            std::fflush(stdout);
            _exit(0);
        }
        close(pfd[1]);
        std::string err; char buf[512]; ssize_t n;
        while ((n = read(pfd[0], buf, sizeof buf)) > 0) err.append(buf, static_cast<std::size_t>(n));
        close(pfd[0]);
        int st = 0; waitpid(pid, &st, 0);
        if (WIFSIGNALED(st)) {
            for (auto& c : err) if (c == '\n') c = '|';
            std::printf("SIG %d %s\n", WTERMSIG(st), err.c_str());
        } else if (WEXITSTATUS(st) != 0) {
            std::printf("EXIT %d\n", WEXITSTATUS(st));
        }
        std::fflush(stdout);
    }
    return 0;
}
'''


def std_headers():
    """every standard header any file under /repo/include includes (grepped per run)"""
    hs = set()
    for root, _, files in os.walk(INC):
        for f in files:
            if not f.endswith(".h"):
                continue
            try:
                txt = open(os.path.join(root, f), errors="replace").read()
            except OSError:
                continue
            for m in re.finditer(r'^\s*#\s*include\s*<([a-z_0-9]+)>', txt, re.M):
                hs.add(m.group(1))
    hs = {h for h in hs if not h.startswith(("boost", "cnl"))}
    return sorted(hs)


def prelude(extra_includes=()):
    L = ["// generated by /verif/vcheck from the current /repo tree\n"]
    L.append("#if defined(VERIF_GCC_VIEW)\n")
    for h in std_headers() + ["cstdint", "cstdio", "cstdlib", "cstring", "limits", "type_traits", "array",
                              "string", "charconv", "system_error", "stdexcept", "numeric", "functional",
                              "iterator", "algorithm", "utility", "tuple", "cmath", "bit", "numbers", "ostream",
                              "istream", "sstream", "typeinfo", "exception"]:
        L.append("#if __has_include(<%s>)\n#include <%s>\n#endif\n" % (h, h))
    L.append("#if defined(__clang__)\n#undef __clang__\n#endif\n#endif\n")
    L.append("#include <cnl/all.h>\n#include <cstdint>\n#include <limits>\n#include <type_traits>\n")
    L.append("""namespace verif {
// build a (possibly nested) CNL number whose innermost representation holds exactly v
template<class T, class V> constexpr auto mk(V v) {
    if constexpr (cnl::is_composite_v<T>) {
        using R = cnl::_impl::rep_of_t<T>;
        return cnl::_impl::from_rep<T>(mk<R>(v));
    } else {
        return static_cast<T>(v);
    }
}
template<class T> struct deep_rep { using type = T; };
template<class T> requires cnl::is_composite_v<T> struct deep_rep<T> { using type = typename deep_rep<cnl::_impl::rep_of_t<T>>::type; };
template<class T> using deep_rep_t = typename deep_rep<T>::type;
}
""")
    for h in extra_includes:
        L.append("#include <%s>\n" % h)
    return "".join(L)


def shard_source(kernels, extra_includes=()):
    L = [prelude(extra_includes)]
    for k in kernels:
        L.append("// ---- %s : %s\n" % (k.name, k.desc))
        L.append(k.source())
    L.append("#if defined(VERIF_RUNNER)\n")
    L.append(RUNNER_PROLOG)
    for k in kernels:
        L.append(k.runner_cpp())
    L.append("static struct { char const* name; void (*fn)(char**); } const table[] = {\n")
    for k in kernels:
        for f in k.fnames():
            L.append('    {"%s", run_%s},\n' % (f, f))
    L.append("};\n")
    L.append(RUNNER_EPILOG)
    L.append("#endif\n")
    return "".join(L)


CLANG = "clang++-14"
GXX = "g++-12"
IR_FLAGS = ["-std=gnu++20", "-O1", "-I" + INC, "-mllvm", "-inline-threshold=100000",
            "-fsanitize=undefined", "-fsanitize-trap=undefined",
            "-fno-sanitize=vptr,function,pointer-overflow",
            "-fno-vectorize", "-fno-slp-vectorize", "-fno-unroll-loops", "-S", "-emit-llvm", "-w"]
if os.environ.get("VERIF_C17_TINY"):
    # experimental (see DESIGN section 10, S43): x86-64 baseline has no FMA, so the unfused form is what the replay builds run
    IR_FLAGS.insert(-3, "-ffp-contract=off")


def ir_cmd(src, out, view, ndebug, sanitize=True):
    fl = list(IR_FLAGS)
    if not sanitize:
        fl = [f for f in fl if not f.startswith(("-fsanitize", "-fno-sanitize"))]
    cmd = [CLANG] + fl
    if view == "gcc":
        cmd.append("-DVERIF_GCC_VIEW")
    if ndebug:
        cmd.append("-DNDEBUG")
    return cmd + [src, "-o", out]


def runner_cmd(src, out, view, ndebug, ubsan=False):
    if view == "gcc":
        cmd = [GXX, "-std=gnu++20", "-O2", "-w", "-I" + INC, "-DVERIF_RUNNER"]
    else:
        cmd = [CLANG, "-std=gnu++20", "-O1", "-w", "-I" + INC, "-DVERIF_RUNNER"]
    if ubsan:
        cmd += ["-fsanitize=undefined,float-cast-overflow", "-fno-sanitize-recover=all", "-fno-sanitize=vptr"]
    if ndebug:
        cmd.append("-DNDEBUG")
    return cmd + [src, "-o", out]


def run_cmd(cmd, timeout=900):
    p = subprocess.run(cmd, stdout=subprocess.PIPE, stderr=subprocess.STDOUT, timeout=timeout)
    return p.returncode, p.stdout.decode(errors="replace")


class Runner:
    """talks to a replay runner process (one line per call)"""

    def __init__(self, exe):
        self.exe = exe
        self.p = subprocess.Popen([exe], stdin=subprocess.PIPE, stdout=subprocess.PIPE, stderr=subprocess.DEVNULL)
        self.calls = 0

    def call(self, fname, hexargs):
        self.calls += 1
        line = (fname + " " + " ".join(hexargs) + "\n").encode()
        self.p.stdin.write(line)
        self.p.stdin.flush()
        out = self.p.stdout.readline().decode(errors="replace").rstrip("\n")
        return parse_outcome(out)

    def close(self):
        try:
            self.p.stdin.close()
            self.p.wait(timeout=5)
        except Exception:
            self.p.kill()


def parse_outcome(line):
    """-> (kind, payload)  kind in RET/THROW/TRAP/SIG/ERR"""
    if line.startswith("RET "):
        parts = line[4:].split(" ")
        return ("RET", parts)
    if line.startswith("THROW "):
        rest = line[6:].split(" ", 1)
        return ("THROW", (rest[0], rest[1] if len(rest) > 1 else ""))
    if line.startswith("SIG "):
        rest = line[4:].split(" ", 1)
        sig = int(rest[0])
        msg = rest[1] if len(rest) > 1 else ""
        if sig == 6:
            return ("TRAP", msg.split("|")[0])
        return ("SIG", (sig, msg))
    return ("ERR", line)


def hex_of_int(v, nbytes):
    v &= (1 << (8 * nbytes)) - 1
    return v.to_bytes(nbytes, "little").hex()


def int_of_hex(h, nbits, is_signed):
    v = int.from_bytes(bytes.fromhex(h), "little") & ((1 << nbits) - 1)
    if is_signed and v >> (nbits - 1):
        v -= 1 << nbits
    return v
