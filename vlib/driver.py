"""vcheck driver: property module -> shards -> worker pool -> verdict, evidence, replay files."""
import os
import sys
import json
import time
import shutil
import tempfile
import importlib
import traceback
import multiprocessing as mp
import random

from . import core, check, ex

VERIF = os.path.dirname(os.path.dirname(os.path.abspath(__file__)))


class KnownFinding:
    def __init__(self, d):
        self.id = d["id"]
        self.property = d["property"]
        self.match = d.get("match", {})
        self.views = d.get("views")
        self.region_src = d["region"]
        self.what = d["what"]
        self.status = d.get("status", "open")

    def matches(self, kernel, view):
        if self.status != "open":
            return False
        if self.views and view not in self.views:
            return False
        for k, v in self.match.items():
            kv = kernel.tags.get(k)
            if isinstance(v, list):
                if kv not in v:
                    return False
            elif kv != v:
                return False
        return True

    def region(self, env):
        scope = {"X": ex, "c": env.c, "env": env, "tags": env.tags, "tmin": core.tmin, "tmax": core.tmax,
                 "bits": core.bits, "signed": core.signed, "fpconst": fpconst}
        try:
            from props import fpx
            import z3
            scope["fpx"] = fpx
            scope["z3"] = z3
        except Exception:
            pass
        scope.update(env.a)
        return eval(self.region_src, scope)


def fpconst(like, value):
    import z3
    return z3.FPVal(value, like.sort())


def load_known(pid):
    p = os.path.join(VERIF, "known_findings.json")
    if not os.path.exists(p):
        return []
    d = json.load(open(p))
    return [KnownFinding(x) for x in d.get("findings", []) if x["property"] == pid]


def worker(job):
    (pid, shard_id, wd, kernel_idx, opts) = job
    t0 = time.time()
    try:
        mod = importlib.import_module("props." + pid.lower())
        allk = mod.kernels(opts)
        kernels = [allk[i] for i in kernel_idx]
        known = load_known(pid)
        return run_shard(pid, shard_id, wd, kernels, opts, known, getattr(mod, "EXTRA_INCLUDES", ()))
    except Exception:
        return {"shard": shard_id, "fatal": traceback.format_exc(), "results": [], "t": time.time() - t0}


def run_shard(pid, shard_id, wd, kernels, opts, known, extra_includes, depth=0):
    t0 = time.time()
    tag = "s%s" % shard_id
    sb = check.ShardBuild(wd, tag, kernels, extra_includes)
    ok = sb.build(runners=opts.get("validate", True))
    tb = time.time() - t0
    if not ok:
        if len(kernels) == 1:
            return {"shard": shard_id, "results": [check.KernelResult(
                name=kernels[0].name, view="-", status="not-instantiable", reason=sb.log[0][-1500:] if sb.log else "",
                desc=kernels[0].desc, tags=kernels[0].tags, obligations=[], violations=[], known=[])],
                "t": time.time() - t0, "build_s": tb}
        # canary: does the prelude alone still compile?  if not, nothing is instantiable (no bisection)
        if depth == 0:
            cb = check.ShardBuild(wd, tag + "canary", [], extra_includes)
            if not cb.build(runners=False):
                return {"shard": shard_id, "fatal": "prelude does not compile against the current tree:\n" + "\n".join(cb.log)[-3000:],
                        "results": [], "t": time.time() - t0, "build_s": tb}
        # bisect to isolate the kernels the current tree refuses to instantiate
        h = len(kernels) // 2
        a = run_shard(pid, "%sa" % shard_id, wd, kernels[:h], opts, known, extra_includes, depth + 1)
        b = run_shard(pid, "%sb" % shard_id, wd, kernels[h:], opts, known, extra_includes, depth + 1)
        return {"shard": shard_id, "results": a["results"] + b["results"], "t": time.time() - t0,
                "build_s": tb + a.get("build_s", 0) + b.get("build_s", 0)}
    results = []
    try:
        for k in kernels:
            for view in k.views:
                try:
                    r = check.check_kernel(sb, k, view, opts, known)
                except Exception:
                    r = check.KernelResult(name=k.name, view=view, status="error", reason=traceback.format_exc()[-2000:],
                                           desc=k.desc, tags=k.tags, obligations=[], violations=[], known=[])
                r["source"] = k.source() if (r.get("violations") or r.get("known")) else None
                results.append(r)
    finally:
        sb.close()
    return {"shard": shard_id, "results": results, "t": time.time() - t0, "build_s": tb}


def main(argv=None):
    import argparse
    ap = argparse.ArgumentParser()
    ap.add_argument("pid")
    ap.add_argument("--tier", default=os.environ.get("VERIF_TIER", "quick"))
    ap.add_argument("--jobs", type=int, default=int(os.environ.get("VERIF_JOBS", "16")))
    ap.add_argument("--only", default=None, help="substring filter on kernel names/descriptions")
    ap.add_argument("--keep", action="store_true")
    ap.add_argument("--no-validate", action="store_true")
    ap.add_argument("--verbose", "-v", action="store_true")
    ap.add_argument("--shard-size", type=int, default=None)
    ap.add_argument("--no-evidence", action="store_true")
    args = ap.parse_args(argv)
    pid = args.pid.upper()
    if pid == "REPLAY":
        return replay_main(sys.argv[2:])
    seed = int(os.environ.get("VERIF_SEED", "0") or 0)
    tier = args.tier if args.tier in ("quick", "thorough") else "quick"
    t0 = time.time()
    sys.path.insert(0, VERIF)
    mod = importlib.import_module("props." + pid.lower())
    opts = {"tier": tier, "seed": seed, "timeout": 20 if tier == "quick" else 120,
            "cvc5_timeout": 20 if tier == "quick" else 120,
            "nrandom": 12 if tier == "quick" else 40, "validate": not args.no_validate, "witness": True,
            "kernel_budget": 100 if tier == "quick" else 1200}
    opts.update(getattr(mod, "OPTS", {}).get(tier, {}))
    kernels = mod.kernels(opts)
    idx = list(range(len(kernels)))
    if args.only:
        idx = [i for i in idx if args.only in kernels[i].name or args.only in kernels[i].desc]
    names = [kernels[i].name for i in idx]
    assert len(set(names)) == len(names), "duplicate kernel names"
    # shards: balanced round-robin so that heavy families spread out
    nshards = max(1, min(args.jobs * 2, (len(idx) + 3) // 4))
    if len(idx) <= args.jobs:
        nshards = len(idx)  # few (typically heavy) kernels: one process each
    if args.shard_size:
        nshards = max(1, (len(idx) + args.shard_size - 1) // args.shard_size)
    shards = [[] for _ in range(nshards)]
    for n, i in enumerate(idx):
        shards[n % nshards].append(i)
    tmp_root = os.environ.get("TMPDIR", "/tmp")
    wd = tempfile.mkdtemp(prefix="verif.%s." % pid, dir=tmp_root)
    results = []
    fatals = []
    build_s = 0.0
    try:
        jobs = [(pid, n, wd, sh, opts) for n, sh in enumerate(shards) if sh]
        if args.jobs == 1 or len(jobs) == 1:
            outs = map(worker, jobs)
        else:
            pool = mp.Pool(min(args.jobs, len(jobs)))
            outs = pool.imap_unordered(worker, jobs)
        for o in outs:
            if o.get("fatal"):
                fatals.append(o["fatal"])
            results.extend(o["results"])
            build_s += o.get("build_s", 0)
            if args.verbose:
                print("shard %s done in %.1fs (build %.1fs)" % (o["shard"], o["t"], o.get("build_s", 0)), flush=True)
        if args.jobs != 1 and len(jobs) != 1:
            pool.close()
            pool.join()
    finally:
        if not args.keep:
            shutil.rmtree(wd, ignore_errors=True)
        else:
            print("kept", wd)
    wall = time.time() - t0
    return report(pid, tier, seed, mod, kernels, results, fatals, wall, build_s, args)


def report(pid, tier, seed, mod, kernels, results, fatals, wall, build_s, args):
    nviol = 0
    lines = []
    tot = {"obligations": 0, "unsat": 0, "sat": 0, "unknown": 0, "bound": 0}
    statuses = {}
    known_seen = {}
    samples = []
    undecided = []
    rejected = []
    solver_time = 0.0
    funcs = set()
    stubs = set()
    nontrivial = 0
    vectors = 0
    replay_dir = os.path.join(VERIF, "replays", pid)
    machinery = []
    for r in sorted(results, key=lambda r: (r["name"], r.get("view", ""))):
        statuses[r["status"]] = statuses.get(r["status"], 0) + 1
        if r["status"] in ("unsupported", "not-instantiable"):
            rejected.append({"kernel": r["name"], "view": r.get("view"), "status": r["status"],
                             "reason": (r.get("reason") or "")[-400:], "desc": r.get("desc")})
        elif r["status"] in ("encoding-mismatch", "vacuous", "error"):
            machinery.append({"kernel": r["name"], "view": r.get("view"), "status": r["status"],
                              "reason": (r.get("reason") or "")[-1500:], "desc": r.get("desc")})
        funcs |= set(r.get("functions_encoded", []))
        stubs |= set(r.get("stubs", []))
        vectors += r.get("validated_vectors", 0)
        if r.get("witness") == "sat" and r.get("paths", 0) >= 1:
            nontrivial += r.get("paths", 0)
        for o in r.get("obligations", []):
            tot["obligations"] += 1
            solver_time += o.get("t", 0)
            v = o["verdict"]
            if v == "unsat":
                tot["unsat"] += 1
            elif v == "sat":
                tot["sat"] += 1
            elif v == "bound-exceeded":
                tot["bound"] += 1
                undecided.append({"kernel": r["name"], "view": r.get("view"), "label": o["label"], "why": "unwinding bound exceeded"})
            else:
                tot["unknown"] += 1
                undecided.append({"kernel": r["name"], "view": r.get("view"), "label": o["label"], "why": "solver cap", "desc": r.get("desc")})
            if v == "sat" and o.get("replay") not in ("confirmed",):
                machinery.append({"kernel": r["name"], "view": r.get("view"), "status": "sat-not-reproduced",
                                  "reason": json.dumps({k: o.get(k) for k in ("label", "inputs", "symbolic_outcome", "observed", "observed_ref", "replay", "observed_ubsan")}, default=str),
                                  "desc": r.get("desc")})
            if len(samples) < 6 and v == "unsat" and o.get("solver") != "trivial":
                samples.append({"kernel": r["name"], "view": r.get("view"), "what": r.get("desc"), "obligation": o["label"],
                                "verdict": v, "solver": o.get("solver"), "seconds": o.get("t")})
        for vio in r.get("violations", []):
            nviol += 1
            os.makedirs(replay_dir, exist_ok=True)
            rp = os.path.join(replay_dir, "%s-%s.json" % (r["name"], r.get("view")))
            json.dump({"property": pid, "kernel": r["name"], "view": r.get("view"), "desc": r.get("desc"),
                       "tags": r.get("tags"), "consts": r.get("consts"), "violation": vio, "source": r.get("source")},
                      open(rp, "w"), indent=1, default=str)
            lines.append("VIOLATION property=%s replay=%s" % (pid, rp))
            lines.append("  kernel %s [%s] %s: %s inputs=%s observed=%s failed=%s" % (
                r["name"], r.get("view"), r.get("desc"), vio.get("label"), vio.get("inputs"), vio.get("observed"),
                vio.get("failed_claims")))
        for kn in r.get("known", []):
            known_seen.setdefault(kn["id"], []).append(kn)
    known = {k.id: k for k in load_known(pid)}
    for kid, lst in sorted(known_seen.items()):
        kf = known.get(kid)
        lines.append("KNOWN-FINDING: property=%s %s [%s; e.g. %s inputs=%s observed=%s; %d kernels]" % (
            pid, kf.what if kf else kid, kid, lst[0]["kernel"], lst[0]["inputs"], lst[0]["observed"], len(lst)))
    for ln in lines:
        print(ln)
    for m in machinery[:20]:
        print("MACHINERY: %s [%s] %s: %s :: %s" % (m["kernel"], m["view"], m["desc"], m["status"], m["reason"][-700:]))
    for f in fatals:
        print("FATAL worker error:\n" + f)
    print("%s %s: kernels=%d runs=%d statuses=%s obligations=%d unsat=%d sat=%d undecided=%d bound=%d violations=%d "
          "known=%d vectors=%d wall=%.1fs" % (pid, tier, len(kernels), len(results), statuses, tot["obligations"],
                                              tot["unsat"], tot["sat"], tot["unknown"], tot["bound"], nviol,
                                              len(known_seen), vectors, wall))
    if args.verbose:
        for u in undecided[:40]:
            print("  undecided:", u)
        for rj in rejected[:40]:
            print("  rejected:", rj["kernel"], rj["view"], rj["desc"], "::", rj["reason"][-300:].replace("\n", " | "))
    if not args.no_evidence and not args.only:
        ev = {
            "property_id": pid, "tier": tier, "seed": seed, "level": "other",
            "coverage": {
                "explanation": getattr(mod, "EXPLANATION", "") + " Bounded symbolic checking of the real code: "
                "generated extern-C kernels instantiate the CNL templates from /repo's current headers, clang-14 -O1 "
                "(UBSan-trap) lowers them to LLVM IR, a path-wise symbolic executor turns every path into SMT "
                "obligations (precondition AND path-condition AND NOT claim) decided by z3 (cvc5 second); every "
                "operand value of each listed instantiation is covered by an unsat verdict; instantiations are "
                "enumerated (bounded lattice).",
                "obligations": tot["obligations"], "discharged": tot["unsat"],
                "undecided": tot["unknown"] + tot["bound"], "refuted": tot["sat"],
                "evaluations": tot["obligations"],
                "distinct_nontrivial": nontrivial,
                "rule": "one evaluation = one solver obligation (one path of one kernel x one claim); distinct_nontrivial "
                        "counts symbolic paths of kernels whose precondition AND path is satisfiable (vacuity witness sat)",
                "checker_cmd": "./vcheck %s --tier %s" % (pid, tier),
                "trusted_base": ["clang++-14 front end and -O1 pipeline", "UBSan instrumentation completeness for the instrumented UB kinds",
                                 "vlib/irparse.py + vlib/symex.py (validated per run against the g++/clang real build on concrete vectors)",
                                 "z3 (python wheel) and cvc5 1.0", "SMT-LIB FP semantics for x87 long double as (15,64)"],
                "kernels": len(kernels), "kernel_runs": len(results), "statuses": statuses,
                "functions_encoded_count": len(funcs), "functions_encoded_sample": sorted(funcs)[:40],
                "stubs": sorted(stubs), "bounds": getattr(mod, "BOUNDS", {}).get(tier, getattr(mod, "BOUNDS", "")),
                "solver_time_s": round(solver_time, 2), "build_time_s": round(build_s, 1),
                "translator_validation_vectors": vectors,
                "undecided_list": undecided[:60], "rejected": rejected[:60], "machinery_issues": machinery[:20],
                "known_findings_confirmed": sorted(known_seen.keys()),
                "samples": samples or [{"note": "no solver-decided obligation in this run"}],
            },
            "assumptions": getattr(mod, "ASSUMPTIONS", []) + [
                "stubs: fputs/fputc no effect, abort terminal, __cxa_allocate_exception fresh object, std exception ctors no effect, __cxa_throw terminal",
                "undef/poison values are unconstrained fresh variables; inferred nsw/nuw/exact flags ignored (wrapping)",
                "UB kinds not instrumented by UBSan (aliasing, lifetime) are outside the claim"],
            "wall_s": round(wall, 2), "violations": nviol,
        }
        os.makedirs(os.path.join(VERIF, "evidence"), exist_ok=True)
        json.dump(ev, open(os.path.join(VERIF, "evidence", pid + ".json"), "w"), indent=1, default=str)
    if nviol:
        return 1
    if fatals or (not results):
        return 2
    # a run in which a large share of the kernels could not be analysed (unsupported IR, budget, encoding mismatch)
    # decided too little to be called a pass
    bad = sum(v for k, v in statuses.items() if k not in ("ok",))
    # kernels that merely ran out of their wall-clock budget (machine load) are listed in the evidence as not analysed;
    # they make the run inconclusive only when they are the majority
    soft = sum(1 for r in results if r.get("status") != "ok" and "time budget" in str(r.get("reason", "")))
    hard = bad - soft
    if results and (hard > 0.3 * len(results) or bad > 0.6 * len(results)):
        print("MACHINERY: %d of %d kernel runs were not analysed (%s): inconclusive" % (bad, len(results), statuses))
        return 2
    if bad:
        print("NOTE: %d of %d kernel runs were not analysed (%s; %d of them out of time budget) - listed in the evidence file" % (
            bad, len(results), statuses, soft))
    return 0


def replay_main(argv):
    path = argv[0]
    d = json.load(open(path))
    print(json.dumps(d["violation"], indent=1))
    print("kernel source:\n" + (d.get("source") or ""))
    print("re-run: ./vcheck %s --only %s" % (d["property"], d["kernel"]))
    pid = d["property"]
    return main([pid, "--only", d["kernel"], "--no-evidence"])
