"""Value domains for the symbolic executor.

IV  = an iN value.  `c` is a python int (unsigned residue) when the value is concrete.
      BV mode : `e` is a z3 BitVec(N) term.
      INT mode: `u` / `s` are z3 Int terms for the unsigned / signed reading (built lazily);
                every arithmetic instruction is exact integer arithmetic followed by an explicit wrap.
i1 values are python bools or z3 Bool terms in both modes.
"""
import z3


class IntUnsupported(Exception):
    """operation has no INT-mode encoding (bitwise op on symbolic data etc.)"""


def is_conc_bool(b):
    return b is True or b is False


def b_not(a):
    if is_conc_bool(a):
        return not a
    return z3.Not(a)


def b_and(a, b):
    if a is False or b is False:
        return False
    if a is True:
        return b
    if b is True:
        return a
    return z3.And(a, b)


def b_or(a, b):
    if a is True or b is True:
        return True
    if a is False:
        return b
    if b is False:
        return a
    return z3.Or(a, b)


def b_xor(a, b):
    if is_conc_bool(a) and is_conc_bool(b):
        return a != b
    if is_conc_bool(a):
        return b_not(b) if a else b
    if is_conc_bool(b):
        return b_not(a) if b else a
    return z3.Xor(a, b)


def b_ite(c, a, b):
    if c is True:
        return a
    if c is False:
        return b
    if is_conc_bool(a) and is_conc_bool(b):
        if a == b:
            return a
        return c if a else z3.Not(c)
    return z3.If(c, zb(a), zb(b))


def zb(a):
    return z3.BoolVal(a) if is_conc_bool(a) else a


def mask(n):
    return (1 << n) - 1


def to_signed(v, n):
    v &= mask(n)
    return v - (1 << n) if v >> (n - 1) else v


class IV:
    __slots__ = ("bits", "c", "e", "_u", "_s", "pref", "lazy", "tz", "ubits", "srng", "urng", "fac", "cat")

    def __init__(self, bits, c=None, e=None, u=None, s=None, pref="u", lazy=None):
        self.lazy = lazy
        self.tz = 0          # known trailing zero bits
        self.ubits = bits    # value (unsigned reading) is known to be < 2^ubits
        self.srng = None     # known interval of the signed reading (INT mode, python ints)
        self.urng = None     # known interval of the unsigned reading
        self.fac = None      # (base term, k): signed reading == base * 2^k exactly (INT mode)
        self.cat = None      # [(lsb offset, IV), ...]: value is the concatenation of these pieces (INT mode)
        self.bits = bits
        self.c = None if c is None else c & mask(bits)
        self.e = e
        self._u = u
        self._s = s
        self.pref = pref

    def __repr__(self):
        if self.c is not None:
            return "i%d:%d" % (self.bits, self.c)
        return "i%d:%s" % (self.bits, self.e if self.e is not None else (self._u if self._u is not None else self._s))

    @property
    def sc(self):
        return to_signed(self.c, self.bits)


# ============================================================================ BV domain
class BVDom:
    mode = "bv"

    def __init__(self):
        self.fresh_ctr = 0
        self.fresh_vars = []

    def const(self, bits, v):
        return IV(bits, c=v)

    def var(self, bits, name, signed=False):
        return IV(bits, e=z3.BitVec(name, bits))

    def fresh(self, bits, hint="undef"):
        self.fresh_ctr += 1
        v = z3.BitVec("%s!%d" % (hint, self.fresh_ctr), bits)
        self.fresh_vars.append(v)
        return IV(bits, e=v)

    def range_facts(self, iv, signed):
        return []

    def E(self, a):
        if a.e is None:
            a.e = z3.BitVecVal(a.c, a.bits)
        return a.e

    def from_bool(self, b, bits):
        if is_conc_bool(b):
            return IV(bits, c=1 if b else 0)
        return IV(bits, e=z3.If(b, z3.BitVecVal(1, bits), z3.BitVecVal(0, bits)))

    def from_bool_sext(self, b, bits):
        if is_conc_bool(b):
            return IV(bits, c=mask(bits) if b else 0)
        return IV(bits, e=z3.If(b, z3.BitVecVal(mask(bits), bits), z3.BitVecVal(0, bits)))

    def to_bool(self, a):  # trunc to i1
        if a.c is not None:
            return bool(a.c & 1)
        return z3.Extract(0, 0, self.E(a)) == z3.BitVecVal(1, 1)

    def mk(self, bits, e):
        e = z3.simplify(e) if False else e
        if z3.is_bv_value(e):
            return IV(bits, c=e.as_long())
        return IV(bits, e=e)

    def binop(self, op, a, b):
        n = a.bits
        if a.c is not None and b.c is not None:
            r = conc_binop(op, a.c, b.c, n)
            if r is not None:
                return IV(n, c=r)
        x, y = self.E(a), self.E(b)
        if op == "add":
            if b.c == 0:
                return a
            if a.c == 0:
                return b
            r = x + y
        elif op == "sub":
            if b.c == 0:
                return a
            r = x - y
        elif op == "mul":
            if b.c == 1:
                return a
            if a.c == 1:
                return b
            r = x * y
        elif op == "udiv":
            r = z3.UDiv(x, y)
        elif op == "sdiv":
            r = x / y
        elif op == "urem":
            r = z3.URem(x, y)
        elif op == "srem":
            r = z3.SRem(x, y)
        elif op == "shl":
            r = x << y
        elif op == "lshr":
            r = z3.LShR(x, y)
        elif op == "ashr":
            r = x >> y
        elif op == "and":
            if b.c == mask(n):
                return a
            if b.c == 0 or a.c == 0:
                return IV(n, c=0)
            r = x & y
        elif op == "or":
            if b.c == 0:
                return a
            if a.c == 0:
                return b
            r = x | y
        elif op == "xor":
            if b.c == 0:
                return a
            r = x ^ y
        else:
            raise NotImplementedError(op)
        return IV(n, e=r)

    def icmp(self, pred, a, b):
        n = a.bits
        if a.c is not None and b.c is not None:
            return conc_icmp(pred, a.c, b.c, n)
        x, y = self.E(a), self.E(b)
        return {
            "eq": lambda: x == y, "ne": lambda: x != y,
            "ult": lambda: z3.ULT(x, y), "ule": lambda: z3.ULE(x, y),
            "ugt": lambda: z3.UGT(x, y), "uge": lambda: z3.UGE(x, y),
            "slt": lambda: x < y, "sle": lambda: x <= y, "sgt": lambda: x > y, "sge": lambda: x >= y,
        }[pred]()

    def zext(self, a, bits):
        if a.c is not None:
            return IV(bits, c=a.c)
        return IV(bits, e=z3.ZeroExt(bits - a.bits, self.E(a)))

    def sext(self, a, bits):
        if a.c is not None:
            return IV(bits, c=a.sc)
        return IV(bits, e=z3.SignExt(bits - a.bits, self.E(a)))

    def trunc(self, a, bits):
        if a.c is not None:
            return IV(bits, c=a.c)
        return IV(bits, e=z3.Extract(bits - 1, 0, self.E(a)))

    def select(self, c, a, b):
        if c is True:
            return a
        if c is False:
            return b
        if a.c is not None and a.c == b.c:
            return a
        return IV(a.bits, e=z3.If(c, self.E(a), self.E(b)))

    def with_overflow(self, kind, a, b):
        """kind in sadd ssub smul uadd usub umul -> (IV result (wrapped), overflow bool)"""
        n = a.bits
        op = kind[1:]
        res = self.binop(op, a, b)
        if a.c is not None and b.c is not None:
            if kind[0] == "s":
                ex = {"add": a.sc + b.sc, "sub": a.sc - b.sc, "mul": a.sc * b.sc}[op]
                return res, not (-(1 << (n - 1)) <= ex < (1 << (n - 1)))
            ex = {"add": a.c + b.c, "sub": a.c - b.c, "mul": a.c * b.c}[op]
            return res, not (0 <= ex < (1 << n))
        x, y = self.E(a), self.E(b)
        if kind == "sadd":
            ov = z3.Not(z3.And(z3.BVAddNoOverflow(x, y, True), z3.BVAddNoUnderflow(x, y)))
        elif kind == "ssub":
            ov = z3.Not(z3.And(z3.BVSubNoOverflow(x, y), z3.BVSubNoUnderflow(x, y, True)))
        elif kind == "smul":
            ov = z3.Not(z3.And(z3.BVMulNoOverflow(x, y, True), z3.BVMulNoUnderflow(x, y)))
        elif kind == "uadd":
            ov = z3.Not(z3.BVAddNoOverflow(x, y, False))
        elif kind == "usub":
            ov = z3.ULT(x, y)
        elif kind == "umul":
            ov = z3.Not(z3.BVMulNoOverflow(x, y, False))
        else:
            raise NotImplementedError(kind)
        return res, ov

    def ctlz(self, a):
        n = a.bits
        if a.c is not None:
            return IV(n, c=n - a.c.bit_length())
        x = self.E(a)
        r = z3.BitVecVal(n, n)
        for i in range(n):  # lowest to highest so the highest set bit wins
            r = z3.If(z3.Extract(i, i, x) == 1, z3.BitVecVal(n - 1 - i, n), r)
        return IV(n, e=r)

    def cttz(self, a):
        n = a.bits
        if a.c is not None:
            return IV(n, c=n if a.c == 0 else (a.c & -a.c).bit_length() - 1)
        x = self.E(a)
        r = z3.BitVecVal(n, n)
        for i in range(n - 1, -1, -1):
            r = z3.If(z3.Extract(i, i, x) == 1, z3.BitVecVal(i, n), r)
        return IV(n, e=r)

    def ctpop(self, a):
        n = a.bits
        if a.c is not None:
            return IV(n, c=bin(a.c).count("1"))
        x = self.E(a)
        r = z3.BitVecVal(0, n)
        for i in range(n):
            r = r + z3.ZeroExt(n - 1, z3.Extract(i, i, x))
        return IV(n, e=r)

    def is_zero(self, a):
        if a.c is not None:
            return a.c == 0
        return self.E(a) == 0

    # exact-domain view used by oracles: a signed bit-vector W bits wide
    def exact(self, a, signed, W):
        if a.c is not None:
            return z3.BitVecVal(a.sc if signed else a.c, W)
        if W == a.bits:
            return self.E(a)
        if W < a.bits:
            raise ValueError("exact width too small")
        return z3.SignExt(W - a.bits, self.E(a)) if signed else z3.ZeroExt(W - a.bits, self.E(a))

    def to_bytes(self, a):
        nb = (a.bits + 7) // 8
        if a.c is not None:
            return [IV(8, c=(a.c >> (8 * i)) & 255) for i in range(nb)]
        x = self.E(a)
        if a.bits % 8:
            x = z3.ZeroExt(nb * 8 - a.bits, x)
        return [IV(8, e=z3.Extract(8 * i + 7, 8 * i, x)) for i in range(nb)]

    def from_bytes(self, bs, bits):
        if all(b.c is not None for b in bs):
            v = 0
            for i, b in enumerate(bs):
                v |= b.c << (8 * i)
            return IV(bits, c=v)
        e = z3.Concat(*[self.E(b) for b in reversed(bs)]) if len(bs) > 1 else self.E(bs[0])
        if bits < 8 * len(bs):
            e = z3.Extract(bits - 1, 0, e)
        return IV(bits, e=z3.simplify(e))


def conc_binop(op, a, b, n):
    m = mask(n)
    sa, sb = to_signed(a, n), to_signed(b, n)
    if op == "add":
        return (a + b) & m
    if op == "sub":
        return (a - b) & m
    if op == "mul":
        return (a * b) & m
    if op == "udiv":
        return None if b == 0 else a // b
    if op == "urem":
        return None if b == 0 else a % b
    if op == "sdiv":
        if sb == 0:
            return None
        q = abs(sa) // abs(sb)
        return (q if (sa < 0) == (sb < 0) else -q) & m
    if op == "srem":
        if sb == 0:
            return None
        q = abs(sa) // abs(sb)
        q = q if (sa < 0) == (sb < 0) else -q
        return (sa - q * sb) & m
    if op == "shl":
        return None if b >= n else (a << b) & m
    if op == "lshr":
        return None if b >= n else a >> b
    if op == "ashr":
        return None if b >= n else (sa >> b) & m
    if op == "and":
        return a & b
    if op == "or":
        return a | b
    if op == "xor":
        return a ^ b
    return None


def conc_icmp(pred, a, b, n):
    sa, sb = to_signed(a, n), to_signed(b, n)
    return {"eq": a == b, "ne": a != b, "ult": a < b, "ule": a <= b, "ugt": a > b, "uge": a >= b,
            "slt": sa < sb, "sle": sa <= sb, "sgt": sa > sb, "sge": sa >= sb}[pred]


# ============================================================================ INT domain
def tdiv(a, b):
    """truncating division on z3 Int terms (z3's `/` on Int is floor for b>0, ceil for b<0)"""
    return z3.If(a >= 0,
                 z3.If(b > 0, a / b, -(a / (-b))),
                 z3.If(b > 0, -((-a) / b), (-a) / (-b)))


class IntDom:
    mode = "int"

    def __init__(self):
        self.fresh_ctr = 0
        self.fresh_vars = []
        self.facts = []

    def const(self, bits, v):
        return IV(bits, c=v)

    def var(self, bits, name, signed=False):
        v = z3.Int(name)
        if signed:
            r = IV(bits, s=v, pref="s")
            r.srng = (-(1 << (bits - 1)), (1 << (bits - 1)) - 1)
            return r
        r = IV(bits, u=v, pref="u")
        r.urng = (0, (1 << bits) - 1)
        return r

    def fresh(self, bits, hint="undef"):
        self.fresh_ctr += 1
        v = z3.Int("%s!%d" % (hint, self.fresh_ctr))
        self.fresh_vars.append(v)
        self.facts.append(z3.And(v >= 0, v < (1 << bits)))
        return IV(bits, u=v, pref="u")

    def range_facts(self, iv, signed):
        n = iv.bits
        if signed:
            return [self.S(iv) >= -(1 << (n - 1)), self.S(iv) < (1 << (n - 1))]
        return [self.U(iv) >= 0, self.U(iv) < (1 << n)]

    def U(self, a):
        if a._u is None:
            if a.lazy is not None and a._s is None:
                raise IntUnsupported("bitwise %s on symbolic operands" % a.lazy[0])
            if a.c is not None:
                a._u = z3.IntVal(a.c)
            elif a.srng is not None and a.srng[0] >= 0:
                a._u = a._s          # known non-negative: both readings coincide
                if a.urng is None:
                    a.urng = a.srng
            elif a.srng is not None and a.srng[1] < 0:
                a._u = a._s + (1 << a.bits)
            else:
                a._u = z3.If(a._s < 0, a._s + (1 << a.bits), a._s)
        return a._u

    def S(self, a):
        if a._s is None:
            if a.lazy is not None and a._u is None:
                raise IntUnsupported("bitwise %s on symbolic operands" % a.lazy[0])
            if a.c is not None:
                a._s = z3.IntVal(a.sc)
            elif a.urng is not None and a.urng[1] < (1 << (a.bits - 1)):
                a._s = a._u          # known below the sign bit: both readings coincide
                if a.srng is None:
                    a.srng = a.urng
            elif a.urng is not None and a.urng[0] >= (1 << (a.bits - 1)):
                a._s = a._u - (1 << a.bits)
            else:
                a._s = z3.If(a._u >= (1 << (a.bits - 1)), a._u - (1 << a.bits), a._u)
        return a._s

    def E(self, a):
        return self.U(a)

    def mk_u(self, bits, e):
        return IV(bits, u=e, pref="u")

    def mk_s(self, bits, e):
        return IV(bits, s=e, pref="s")

    def wrap_u(self, e, n):
        return e % (1 << n)

    def wrap_s(self, e, n):
        return ((e + (1 << (n - 1))) % (1 << n)) - (1 << (n - 1))

    def from_bool(self, b, bits):
        if is_conc_bool(b):
            return IV(bits, c=1 if b else 0)
        return IV(bits, u=z3.If(b, z3.IntVal(1), z3.IntVal(0)), pref="u")

    def from_bool_sext(self, b, bits):
        if is_conc_bool(b):
            return IV(bits, c=mask(bits) if b else 0)
        return IV(bits, s=z3.If(b, z3.IntVal(-1), z3.IntVal(0)), pref="s")

    def to_bool(self, a):
        if a.c is not None:
            return bool(a.c & 1)
        return self.U(a) % 2 == 1

    def _pref(self, a, b):
        if a.c is None and b.c is None:
            return "s" if (a.pref == "s" and b.pref == "s") else ("s" if a.pref == "s" or b.pref == "s" else "u")
        return a.pref if a.c is None else b.pref

    @staticmethod
    def _srng(a):
        if a.c is not None:
            return (a.sc, a.sc)
        if a.srng is not None:
            return a.srng
        if a.urng is not None and a.urng[1] < (1 << (a.bits - 1)):
            return a.urng
        return None

    @staticmethod
    def _urng(a):
        if a.c is not None:
            return (a.c, a.c)
        if a.urng is not None:
            return a.urng
        if a.srng is not None and a.srng[0] >= 0:
            return a.srng
        return None

    def _interval_op(self, op, a, b):
        """if interval arithmetic shows the exact result cannot wrap, return the unwrapped IV"""
        n = a.bits
        f = {"add": lambda x, y: [x[0] + y[0], x[1] + y[1]], "sub": lambda x, y: [x[0] - y[1], x[1] - y[0]],
             "mul": lambda x, y: [min(x[0] * y[0], x[0] * y[1], x[1] * y[0], x[1] * y[1]),
                                  max(x[0] * y[0], x[0] * y[1], x[1] * y[0], x[1] * y[1])]}[op]
        sa, sb = self._srng(a), self._srng(b)
        if sa is not None and sb is not None:
            r = f(sa, sb)
            if -(1 << (n - 1)) <= r[0] and r[1] < (1 << (n - 1)):
                x, y = self.S(a), self.S(b)
                e = x + y if op == "add" else (x - y if op == "sub" else x * y)
                v = self.mk_s(n, e)
                v.srng = (r[0], r[1])
                if op == "mul":
                    if a.fac is not None:
                        v.fac = (a.fac[0] * y, a.fac[1])
                    elif b.fac is not None:
                        v.fac = (x * b.fac[0], b.fac[1])
                return v
        ua, ub = self._urng(a), self._urng(b)
        if ua is not None and ub is not None:
            r = f(ua, ub)
            if 0 <= r[0] and r[1] < (1 << n):
                x, y = self.U(a), self.U(b)
                e = x + y if op == "add" else (x - y if op == "sub" else x * y)
                v = self.mk_u(n, e)
                v.urng = (r[0], r[1])
                return v
        return None

    def binop(self, op, a, b):
        n = a.bits
        if a.c is not None and b.c is not None:
            r = conc_binop(op, a.c, b.c, n)
            if r is not None:
                return IV(n, c=r)
        if op in ("add", "sub", "mul") and a.lazy is None and b.lazy is None:
            r = self._interval_op(op, a, b)
            if r is not None:
                return r
        p = self._pref(a, b)
        lo, hi = -(1 << (n - 1)), (1 << (n - 1)) - 1
        if op in ("add", "sub"):
            if b.c == 0:
                return a
            if op == "add" and a.c == 0:
                return b
            if p == "s":
                e = self.S(a) + self.S(b) if op == "add" else self.S(a) - self.S(b)
                return self.mk_s(n, z3.If(e > hi, e - (1 << n), z3.If(e < lo, e + (1 << n), e)))
            e = self.U(a) + self.U(b) if op == "add" else self.U(a) - self.U(b)
            return self.mk_u(n, z3.If(e >= (1 << n), e - (1 << n), z3.If(e < 0, e + (1 << n), e)))
        if op == "mul":
            if b.c == 1:
                return a
            if a.c == 1:
                return b
            if p == "s":
                return self.mk_s(n, self.wrap_s(self.S(a) * self.S(b), n))
            return self.mk_u(n, self.wrap_u(self.U(a) * self.U(b), n))
        if op == "udiv":
            r = self.mk_u(n, self.U(a) / self.U(b))
            ua = self._urng(a)
            r.urng = (0, ua[1]) if ua is not None else None
            return r
        if op == "urem":
            r = self.mk_u(n, self.U(a) % self.U(b))
            ua, ub = self._urng(a), self._urng(b)
            hi_ = min([x for x in ((ua[1] if ua else None), (ub[1] - 1 if ub else None)) if x is not None] or [None]) if (ua or ub) else None
            r.urng = (0, max(hi_, 0)) if hi_ is not None else None
            return r
        if op == "sdiv":
            x, y = self.S(a), self.S(b)
            return self.mk_s(n, z3.If(z3.And(x == lo, y == -1), z3.IntVal(lo), tdiv(x, y)))
        if op == "srem":
            x, y = self.S(a), self.S(b)
            return self.mk_s(n, z3.If(y == -1, z3.IntVal(0), x - y * tdiv(x, y)))
        if op in ("shl", "lshr", "ashr"):
            if b.c is not None:
                k = b.c
                if k >= n:
                    return self.fresh(n, "poison")
                return self._shift_const(op, a, k)
            # symbolic amount: ladder
            amt = self.U(b)
            r = None
            for k in range(n - 1, -1, -1):
                v = self._shift_const(op, a, k)
                ve = self.S(v) if op == "ashr" else self.U(v)
                r = ve if r is None else z3.If(amt == k, ve, r)
            return self.mk_s(n, r) if op == "ashr" else self.mk_u(n, r)
        if op == "and":
            for x, y in ((a, b), (b, a)):
                if y.c is not None:
                    if y.c == mask(n):
                        return x
                    if y.c == 0:
                        return IV(n, c=0)
                    if (y.c + 1) & y.c == 0:  # low mask 2^k-1
                        kk = (y.c + 1).bit_length() - 1
                        lo_ = self.cat_low(x, kk)
                        if lo_ is not None:
                            return self.zext(lo_, n) if lo_.bits < n else lo_
                        ur = self._urng(x)
                        if ur is not None and ur[1] <= y.c:
                            return x
                        r_ = self.mk_u(n, self.U(x) % (y.c + 1))
                        r_.urng = (0, y.c)
                        return r_
                    inv = (~y.c) & mask(n)
                    if (inv + 1) & inv == 0:  # clears the k low bits
                        return self.mk_u(n, self.U(x) - self.U(x) % (inv + 1))
                    if y.c == 1 << (n - 1):
                        return self.mk_u(n, z3.If(self.U(x) >= y.c, z3.IntVal(y.c), z3.IntVal(0)))
                    # constant mask made of a few contiguous runs of ones: and = sum over runs of the bit field
                    runs = []
                    m_, pos_ = y.c, 0
                    while m_:
                        if m_ & 1:
                            st_ = pos_
                            while m_ & 1:
                                m_ >>= 1
                                pos_ += 1
                            runs.append((st_, pos_))
                        else:
                            m_ >>= 1
                            pos_ += 1
                    if len(runs) <= 4:
                        ux = self.U(x)
                        e_ = None
                        for (lo_b, hi_b) in runs:
                            t_ = ux % (1 << hi_b) if hi_b < n else ux
                            if lo_b:
                                t_ = (t_ / (1 << lo_b)) * (1 << lo_b)
                            e_ = t_ if e_ is None else e_ + t_
                        return self.mk_u(n, e_)
            if n == 1:
                raise IntUnsupported("i1 as IV")
            return self._and_sign(a, b)
        if op == "or":
            if b.c == 0:
                return a
            if a.c == 0:
                return b
            for x, y in ((a, b), (b, a)):
                yub = y.ubits
                yr = self._urng(y)
                if yr is not None:
                    yub = min(yub, yr[1].bit_length())
                xtz = x.tz if x.c is None else ((((x.c & -x.c).bit_length() - 1) if x.c else n))
                if x.lazy is None and y.lazy is None and xtz >= yub:
                    r = self.mk_u(n, self.U(x) + self.U(y))  # disjoint bit ranges: or == add
                    r.ubits = n
                    if x.cat is not None and y.cat is not None:
                        r.cat = sorted(list(x.cat) + list(y.cat), key=lambda t: t[0])
                    return r
            return self._or_like(a, b, op)
        if op == "xor":
            if b.c == 0:
                return a
            if b.c == mask(n):
                return self.mk_u(n, mask(n) - self.U(a))
            if a.c == mask(n):
                return self.mk_u(n, mask(n) - self.U(b))
            return self._or_like(a, b, op)
        raise IntUnsupported(op)

    def cat_low(self, a, k):
        """low k bits of a concatenated value if k falls on a piece boundary"""
        if a.cat is None:
            return None
        pieces = [(o, iv) for (o, iv) in a.cat if o < k]
        if not pieces or any(o + iv.bits > k for (o, iv) in pieces):
            return None
        return self.cat_make(pieces, k)

    def cat_high(self, a, k):
        """a >> k (logical) if k falls on a piece boundary"""
        if a.cat is None:
            return None
        if any(o < k < o + iv.bits for (o, iv) in a.cat):
            return None
        pieces = [(o - k, iv) for (o, iv) in a.cat if o >= k]
        return self.cat_make(pieces, a.bits)

    def cat_make(self, pieces, bits):
        if not pieces:
            return IV(bits, c=0)
        if len(pieces) == 1 and pieces[0][0] == 0:
            iv = pieces[0][1]
            if iv.bits == bits:
                return iv
            return self.zext(iv, bits) if iv.bits < bits else None
        e = None
        hi = 0
        for (o, iv) in pieces:
            t = self.U(iv) * (1 << o) if o else self.U(iv)
            e = t if e is None else e + t
            hi = max(hi, o + iv.bits)
        r = self.mk_u(bits, e)
        r.cat = list(pieces)
        r.ubits = min(bits, hi)
        r.urng = (0, (1 << r.ubits) - 1)
        return r

    def _and_sign(self, a, b):
        return IV(a.bits, lazy=("and", a, b), pref="s")

    def _or_like(self, a, b, op):
        return IV(a.bits, lazy=(op, a, b), pref="s")

    def sign_neg(self, a):
        """Bool: the sign bit of a is set"""
        if a.c is not None:
            return a.sc < 0
        if a.lazy is not None:
            op, x, y = a.lazy
            sx, sy = self.sign_neg(x), self.sign_neg(y)
            return {"and": b_and, "or": b_or, "xor": b_xor}[op](sx, sy)
        return self.S(a) < 0

    def _shift_const(self, op, a, k):
        n = a.bits
        if k == 0:
            return a
        if op == "shl":
            sr = self._srng(a)
            if sr is not None and -(1 << (n - 1)) <= sr[0] * (1 << k) and sr[1] * (1 << k) < (1 << (n - 1)):
                r = self.mk_s(n, self.S(a) * (1 << k))
                r.srng = (sr[0] * (1 << k), sr[1] * (1 << k))
                r.fac = (self.S(a), k)
                r.tz = a.tz + k
                return r
            if a.ubits + k <= n:
                r = self.mk_u(n, self.U(a) * (1 << k))  # cannot wrap
                r.ubits = a.ubits + k
                if a.cat is not None:
                    r.cat = [(o + k, iv) for (o, iv) in a.cat]
            elif a.pref == "s":
                r = self.mk_s(n, self.wrap_s(self.S(a) * (1 << k), n))
            else:
                r = self.mk_u(n, self.wrap_u(self.U(a) * (1 << k), n))
            r.tz = a.tz + k
            return r
        if op == "lshr":
            hi_ = self.cat_high(a, k)
            if hi_ is not None:
                return hi_
            r = self.mk_u(n, self.U(a) / (1 << k))
            r.ubits = max(0, min(a.ubits, n) - k)
            ua = self._urng(a)
            r.urng = (ua[0] >> k, ua[1] >> k) if ua is not None else (0, (1 << max(0, n - k)) - 1)
            return r
        if a.fac is not None and a.fac[1] >= k:
            r = self.mk_s(n, a.fac[0] * (1 << (a.fac[1] - k)) if a.fac[1] > k else a.fac[0])
            sr = self._srng(a)
            if sr is not None:
                r.srng = (sr[0] >> k, sr[1] >> k)
            if a.fac[1] > k:
                r.fac = (a.fac[0], a.fac[1] - k)
            return r
        r = self.mk_s(n, self.S(a) / (1 << k))  # floor division by a positive constant
        sr = self._srng(a)
        if sr is not None:
            r.srng = (sr[0] >> k, sr[1] >> k)
        return r

    def _rng_for(self, x, signed_view):
        if x.c is not None:
            v = x.sc if signed_view else x.c
            return (v, v)
        return self._srng(x) if signed_view else self._urng(x)

    def _icmp_by_range(self, pred, a, b):
        """decide a comparison from the tracked value intervals (python bool) or None"""
        if pred in ("eq", "ne"):
            for sv in (False, True):
                ra, rb = self._rng_for(a, sv), self._rng_for(b, sv)
                if ra is not None and rb is not None and (ra[1] < rb[0] or rb[1] < ra[0]):
                    return pred == "ne"
            return None
        sv = pred[0] == "s"
        ra, rb = self._rng_for(a, sv), self._rng_for(b, sv)
        if ra is None or rb is None:
            return None
        op = pred[1:]
        if op == "lt":
            return True if ra[1] < rb[0] else (False if ra[0] >= rb[1] else None)
        if op == "le":
            return True if ra[1] <= rb[0] else (False if ra[0] > rb[1] else None)
        if op == "gt":
            return True if ra[0] > rb[1] else (False if ra[1] <= rb[0] else None)
        if op == "ge":
            return True if ra[0] >= rb[1] else (False if ra[1] < rb[0] else None)
        return None

    def icmp(self, pred, a, b):
        n = a.bits
        if a.c is not None and b.c is not None:
            return conc_icmp(pred, a.c, b.c, n)
        if a.lazy is None and b.lazy is None:
            byr = self._icmp_by_range(pred, a, b)
            if byr is not None:
                return byr
        if a.lazy is not None and b.c is not None:
            if (pred == "slt" and b.c == 0) or (pred == "sle" and b.sc == -1):
                return self.sign_neg(a)
            if (pred == "sge" and b.c == 0) or (pred == "sgt" and b.sc == -1):
                return b_not(self.sign_neg(a))
            if a.lazy[0] == "or" and b.c == 0 and pred in ("eq", "ne"):
                r = b_and(self.is_zero(a.lazy[1]), self.is_zero(a.lazy[2]))
                return r if pred == "eq" else b_not(r)
            if a.lazy[0] == "xor" and b.c == 0 and pred in ("eq", "ne"):
                return self.icmp(pred, a.lazy[1], a.lazy[2])
        if pred in ("eq", "ne"):
            if self._pref(a, b) == "s":
                r = self.S(a) == self.S(b)
            else:
                r = self.U(a) == self.U(b)
            return r if pred == "eq" else z3.Not(r)
        if pred[0] == "u":
            x, y = self.U(a), self.U(b)
        else:
            x, y = self.S(a), self.S(b)
        return {"lt": x < y, "le": x <= y, "gt": x > y, "ge": x >= y}[pred[1:]]

    def zext(self, a, bits):
        if a.c is not None:
            return IV(bits, c=a.c)
        r = IV(bits, u=self.U(a), s=self.U(a), pref="u")
        r.ubits = min(a.bits, a.ubits)
        r.urng = self._urng(a) or (0, (1 << a.bits) - 1)
        r.srng = r.urng
        r.cat = a.cat if a.cat is not None else [(0, a)]
        return r

    def sext(self, a, bits):
        if a.c is not None:
            return IV(bits, c=a.sc)
        r = self.mk_s(bits, self.S(a))
        r.srng = self._srng(a) or (-(1 << (a.bits - 1)), (1 << (a.bits - 1)) - 1)
        return r

    def trunc(self, a, bits):
        if a.c is not None:
            return IV(bits, c=a.c)
        lo_ = self.cat_low(a, bits)
        if lo_ is not None and lo_.bits == bits:
            return lo_
        sr = self._srng(a)
        if sr is not None and -(1 << (bits - 1)) <= sr[0] and sr[1] < (1 << (bits - 1)):
            r = self.mk_s(bits, self.S(a))
            r.srng = sr
            return r
        ur = self._urng(a)
        if ur is not None and ur[1] < (1 << bits):
            r = self.mk_u(bits, self.U(a))
            r.urng = ur
            return r
        if a.pref == "s":
            return self.mk_s(bits, self.wrap_s(self.S(a), bits))
        return self.mk_u(bits, self.wrap_u(self.U(a), bits))

    def select(self, c, a, b):
        if c is True:
            return a
        if c is False:
            return b
        if a.c is not None and a.c == b.c:
            return a
        if self._pref(a, b) == "s":
            r = self.mk_s(a.bits, z3.If(c, self.S(a), self.S(b)))
            sa, sb = self._srng(a), self._srng(b)
            if sa is not None and sb is not None:
                r.srng = (min(sa[0], sb[0]), max(sa[1], sb[1]))
            return r
        r = self.mk_u(a.bits, z3.If(c, self.U(a), self.U(b)))
        ua, ub = self._urng(a), self._urng(b)
        if ua is not None and ub is not None:
            r.urng = (min(ua[0], ub[0]), max(ua[1], ub[1]))
        return r

    def with_overflow(self, kind, a, b):
        n = a.bits
        op = kind[1:]
        if a.c is not None and b.c is not None:
            return BVDom.with_overflow(BVDom(), kind, a, b)
        if kind[0] == "s":
            lo, hi = -(1 << (n - 1)), (1 << (n - 1)) - 1
            x, y = self.S(a), self.S(b)
            ex = {"add": x + y, "sub": x - y, "mul": x * y}[op]
            ov = z3.Or(ex < lo, ex > hi)
            if op == "mul":
                w = z3.If(ov, self.wrap_s(ex, n), ex)
            else:
                w = z3.If(ex > hi, ex - (1 << n), z3.If(ex < lo, ex + (1 << n), ex))
            return self.mk_s(n, w), ov
        x, y = self.U(a), self.U(b)
        ex = {"add": x + y, "sub": x - y, "mul": x * y}[op]
        ov = z3.Or(ex < 0, ex >= (1 << n))
        if op == "mul":
            w = z3.If(ov, self.wrap_u(ex, n), ex)
        else:
            w = z3.If(ex >= (1 << n), ex - (1 << n), z3.If(ex < 0, ex + (1 << n), ex))
        return self.mk_u(n, w), ov

    def _bitlen(self, a):
        # number of bits needed for unsigned value: ladder
        n = a.bits
        x = self.U(a)
        r = z3.IntVal(0)
        for k in range(n):
            r = z3.If(x >= (1 << k), z3.IntVal(k + 1), r)
        return r

    def ctlz(self, a):
        n = a.bits
        if a.c is not None:
            return IV(n, c=n - a.c.bit_length())
        return self.mk_u(n, n - self._bitlen(a))

    def cttz(self, a):
        n = a.bits
        if a.c is not None:
            return IV(n, c=n if a.c == 0 else (a.c & -a.c).bit_length() - 1)
        x = self.U(a)
        r = z3.IntVal(n)
        for k in range(n - 1, -1, -1):
            r = z3.If(x % (1 << (k + 1)) == (1 << k), z3.IntVal(k), r)
        return self.mk_u(n, r)

    def ctpop(self, a):
        if a.c is not None:
            return IV(a.bits, c=bin(a.c).count("1"))
        raise IntUnsupported("ctpop")

    def is_zero(self, a):
        if a.c is not None:
            return a.c == 0
        return (self.S(a) if a.pref == "s" else self.U(a)) == 0

    def exact(self, a, signed, W=None):
        if a.c is not None:
            return z3.IntVal(a.sc if signed else a.c)
        return self.S(a) if signed else self.U(a)

    def to_bytes(self, a):
        nb = (a.bits + 7) // 8
        if a.c is not None:
            return [IV(8, c=(a.c >> (8 * i)) & 255) for i in range(nb)]
        x = self.U(a)
        return [self.mk_u(8, (x / (1 << (8 * i))) % 256) for i in range(nb)]

    def from_bytes(self, bs, bits):
        if all(b.c is not None for b in bs):
            v = 0
            for i, b in enumerate(bs):
                v |= b.c << (8 * i)
            return IV(bits, c=v)
        e = sum((self.U(b) * (1 << (8 * i)) for i, b in enumerate(bs)), z3.IntVal(0))
        if bits < 8 * len(bs):
            e = e % (1 << bits)
        return self.mk_u(bits, e)
