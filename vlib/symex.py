"""Path-wise symbolic execution of parsed LLVM IR (engine A).

run() returns a list of Path objects: (path condition, outcome kind, payload).  Outcome kinds:
  RET(value)  TRAP(message)  THROW(typeinfo)  UB(kind)  UNWIND(block)  (see DESIGN.md 2.3)
Undefined values are fresh unconstrained variables; poison-generating flags are ignored (wrapping
semantics); every source-level UB is an explicit llvm.ubsantrap block in the sanitized IR.
"""
import z3
from .irparse import IRUnsupported, FP_FORMATS, Ty, IntTy
from .dom import (IV, BVDom, IntDom, IntUnsupported, b_not, b_and, b_or, b_xor, b_ite, zb, is_conc_bool, mask,
                  to_signed)

UBSAN_KINDS = {0: "add_overflow", 1: "builtin_unreachable", 3: "divrem_overflow", 5: "float_cast_overflow",
               7: "implicit_conversion", 8: "invalid_builtin", 10: "load_invalid_value", 11: "missing_return",
               12: "mul_overflow", 13: "negate_overflow", 16: "nonnull_arg", 17: "nonnull_return",
               18: "out_of_bounds", 19: "pointer_overflow", 20: "shift_out_of_bounds", 21: "sub_overflow",
               22: "type_mismatch", 23: "alignment_assumption", 24: "vla_bound_not_positive"}

RNE = z3.RNE()
RTZ = z3.RTZ()


def fpsort(name):
    e, s = FP_FORMATS[name]
    return z3.FPSort(e, s)


class Ptr:
    __slots__ = ("obj", "off")

    def __init__(self, obj, off):
        self.obj = obj  # object id (int), None for null, or ("fn", name)
        self.off = off  # IV(64)

    def __repr__(self):
        return "Ptr(%r,%r)" % (self.obj, self.off)


class Undef:
    pass


class MemObj:
    __slots__ = ("size", "cells", "name", "const", "base", "opaque")

    def __init__(self, size, name, base, const=False, opaque=False):
        self.size = size
        self.cells = {}  # offset -> (nbytes, value)   value: IV | FP term | Ptr | bool
        self.name = name
        self.const = const
        self.base = base
        self.opaque = opaque

    def clone(self):
        m = MemObj(self.size, self.name, self.base, self.const, self.opaque)
        m.cells = dict(self.cells)
        return m


class Frame:
    __slots__ = ("fn", "block", "prev", "idx", "locals", "ret_dest", "ret_to", "allocas")

    def __init__(self, fn):
        self.fn = fn
        self.block = fn.order[0]
        self.prev = None
        self.idx = 0
        self.locals = {}
        self.ret_dest = None
        self.ret_to = None
        self.allocas = []

    def clone(self):
        f = Frame.__new__(Frame)
        f.fn = self.fn
        f.block = self.block
        f.prev = self.prev
        f.idx = self.idx
        f.locals = dict(self.locals)
        f.ret_dest = self.ret_dest
        f.ret_to = self.ret_to
        f.allocas = list(self.allocas)
        return f


class State:
    def __init__(self):
        self.frames = []
        self.mem = {}
        self.owned = set()
        self.pc = []
        self.visits = {}
        self.last_msg = None
        self.msgs = []
        self.steps = 0
        self.exc_type = None
        self.next_obj = 1
        self.notes = []
        self.trace = []

    def clone(self):
        s = State.__new__(State)
        s.frames = [f.clone() for f in self.frames]
        s.mem = dict(self.mem)
        s.owned = set()
        self.owned = set()
        s.pc = list(self.pc)
        s.visits = dict(self.visits)
        s.last_msg = self.last_msg
        s.msgs = list(self.msgs)
        s.steps = self.steps
        s.exc_type = self.exc_type
        s.next_obj = self.next_obj
        s.notes = list(self.notes)
        s.trace = list(self.trace)
        return s

    def obj_w(self, oid):
        if oid not in self.owned:
            self.mem[oid] = self.mem[oid].clone()
            self.owned.add(oid)
        return self.mem[oid]


class Path:
    def __init__(self, pc, kind, payload=None, mem=None, notes=None, msgs=None):
        self.pc = pc
        self.kind = kind
        self.payload = payload
        self.mem = mem
        self.notes = notes or []
        self.msgs = msgs or []

    def __repr__(self):
        return "Path(%s,%r,|pc|=%d)" % (self.kind, self.payload, len(self.pc))


class PathEnd(Exception):
    def __init__(self, kind, payload=None):
        self.kind = kind
        self.payload = payload


class Executor:
    def __init__(self, mod, mode="bv", unwind=70, max_paths=4000, max_steps=200000, prune="auto",
                 prune_timeout_ms=1500, assumptions=None):
        self.mod = mod
        self.dom = BVDom() if mode == "bv" else IntDom()
        self.mode = mode
        self.unwind = unwind
        self.max_paths = max_paths
        self.max_steps = max_steps
        self.prune = prune
        self.prune_timeout_ms = prune_timeout_ms
        self.solver = z3.Solver()
        self.solver.set("timeout", prune_timeout_ms)
        self.prune_calls = 0
        self.prune_unknown = 0
        self.global_objs = {}
        self.funcs_reached = set()
        self.stubs_used = set()
        self.base_facts = list(assumptions or [])
        self.deadline = None
        self.merge = True
        self.guide = None        # list of (z3 var, z3 value): follow only the path this concrete input takes
        self.record_trace = False
        self.obj_bases = {}
        self.merged = 0
        self._simple_cache = {}

    # ------------------------------------------------------------------ memory objects
    def new_obj(self, st, size, name, const=False, opaque=False):
        oid = st.next_obj
        st.next_obj += 1
        st.mem[oid] = MemObj(size, name, 0x100000 * oid, const, opaque)
        st.owned.add(oid)
        return oid

    def global_ptr(self, st, name):
        if name in self.mod.funcs and name not in self.mod.globals:
            return Ptr(("fn", name), IV(64, c=0))
        key = "g:" + name
        for oid, o in st.mem.items():
            if o.name == key:
                return Ptr(oid, IV(64, c=0))
        g = self.mod.globals.get(name)
        if g is None:
            raise IRUnsupported("unknown global @" + name)
        if g.init is None:
            oid = self.new_obj(st, 8, key, opaque=True)
            return Ptr(oid, IV(64, c=0))
        size = self.mod.sizeof(g.ty)
        oid = self.new_obj(st, size, key, const=g.const)
        self.init_mem(st, oid, 0, g.ty, g.init)
        return Ptr(oid, IV(64, c=0))

    def init_mem(self, st, oid, off, ty, val):
        ty = self.mod.resolve(ty)
        obj = st.obj_w(oid)
        if val.k == "zero":
            self.zero_fill(st, oid, off, ty)
        elif val.k == "cstr":
            for i, b in enumerate(val.v):
                obj.cells[off + i] = (1, IV(8, c=b))
        elif val.k == "agg":
            if ty.k == "array":
                es = self.mod.sizeof(ty.elem)
                for i, e in enumerate(val.ops):
                    self.init_mem(st, oid, off + i * es, ty.elem, e)
            else:
                for i, e in enumerate(val.ops):
                    self.init_mem(st, oid, off + self.mod.field_offset(ty, i), ty.fields[i], e)
        elif val.k == "undef":
            pass
        else:
            v = self.const_val(st, val)
            obj.cells[off] = (self.store_size(ty), v)

    def zero_fill(self, st, oid, off, ty):
        ty = self.mod.resolve(ty)
        obj = st.obj_w(oid)
        if ty.k == "array":
            es = self.mod.sizeof(ty.elem)
            for i in range(ty.n):
                self.zero_fill(st, oid, off + i * es, ty.elem)
        elif ty.k == "struct":
            for i, f in enumerate(ty.fields):
                self.zero_fill(st, oid, off + self.mod.field_offset(ty, i), f)
        elif ty.k == "int":
            obj.cells[off] = (self.store_size(ty), IV(ty.bits, c=0))
        elif ty.k == "ptr":
            obj.cells[off] = (8, Ptr(None, IV(64, c=0)))
        elif ty.k == "fp":
            obj.cells[off] = (self.store_size(ty), z3.FPVal(0.0, fpsort(ty.name)))
        else:
            raise IRUnsupported("zero fill %r" % ty)

    def store_size(self, ty):
        ty = self.mod.resolve(ty)
        if ty.k == "int":
            return (ty.bits + 7) // 8
        if ty.k == "fp":
            return {"half": 2, "float": 4, "double": 8, "x86_fp80": 10, "fp128": 16}[ty.name]
        if ty.k == "ptr":
            return 8
        raise IRUnsupported("store size of %r" % ty)

    # ------------------------------------------------------------------ operand evaluation
    def const_fp(self, ty, v):
        sort = fpsort(ty.name)
        kind, txt = v
        if kind == "dec":
            return z3.FPVal(float(txt), sort)
        h = txt[2:]
        if h[0] == "K":
            bits = int(h[1:], 16)
            sign = bits >> 79
            exp = (bits >> 64) & 0x7FFF
            sig = bits & ((1 << 63) - 1)
            return z3.fpFP(z3.BitVecVal(sign, 1), z3.BitVecVal(exp, 15), z3.BitVecVal(sig, 63))
        if h[0] in "LMHR":
            raise IRUnsupported("fp constant " + txt)
        bits = int(h, 16)
        d = z3.fpBVToFP(z3.BitVecVal(bits, 64), z3.FPSort(11, 53))
        if ty.name == "double":
            return z3.simplify(d)
        return z3.simplify(z3.fpFPToFP(RNE, d, sort))

    def const_val(self, st, val):
        k = val.k
        ty = self.mod.resolve(val.ty) if val.ty is not None else None
        if k == "int":
            if ty.bits == 1:
                return bool(val.v & 1)
            return IV(ty.bits, c=val.v)
        if k == "fp":
            return self.const_fp(ty, val.v)
        if k == "null":
            return Ptr(None, IV(64, c=0))
        if k == "global":
            return self.global_ptr(st, val.v)
        if k == "undef":
            return self.undef_of(ty)
        if k == "zero":
            return self.zero_of(ty)
        if k == "agg":
            return [self.const_val(st, o) for o in val.ops]
        if k == "cexpr":
            return self.const_expr(st, val)
        if k == "md":
            return None
        raise IRUnsupported("constant kind " + k)

    def undef_of(self, ty):
        ty = self.mod.resolve(ty)
        if ty.k == "int":
            if ty.bits == 1:
                self.dom.fresh_ctr += 1
                return z3.Bool("undefb!%d" % self.dom.fresh_ctr)
            return self.dom.fresh(ty.bits)
        if ty.k == "fp":
            self.dom.fresh_ctr += 1
            return z3.FP("undeff!%d" % self.dom.fresh_ctr, fpsort(ty.name))
        if ty.k == "ptr":
            return Ptr(None, IV(64, c=0))
        if ty.k == "struct":
            return [self.undef_of(f) for f in ty.fields]
        if ty.k == "array":
            return [self.undef_of(ty.elem) for _ in range(ty.n)]
        raise IRUnsupported("undef of %r" % ty)

    def zero_of(self, ty):
        ty = self.mod.resolve(ty)
        if ty.k == "int":
            return False if ty.bits == 1 else IV(ty.bits, c=0)
        if ty.k == "fp":
            return z3.FPVal(0.0, fpsort(ty.name))
        if ty.k == "ptr":
            return Ptr(None, IV(64, c=0))
        if ty.k == "struct":
            return [self.zero_of(f) for f in ty.fields]
        if ty.k == "array":
            return [self.zero_of(ty.elem) for _ in range(ty.n)]
        raise IRUnsupported("zero of %r" % ty)

    def const_expr(self, st, val):
        op = val.v
        if op == "getelementptr":
            base = self.const_val(st, val.ops[0])
            idx = [self.const_val(st, o) for o in val.ops[1:]]
            return self.gep(base, val.extra, idx)
        if op in ("bitcast", "addrspacecast"):
            return self.const_val(st, val.ops[0])
        if op == "ptrtoint":
            p = self.const_val(st, val.ops[0])
            return self.ptrtoint(st, p, val.ty.bits)
        if op == "inttoptr":
            return self.inttoptr(st, self.const_val(st, val.ops[0]))
        raise IRUnsupported("constant expression " + op)

    def ev(self, st, val):
        if val.k == "local":
            try:
                return st.frames[-1].locals[val.v]
            except KeyError:
                raise IRUnsupported("use of undefined local %" + val.v)
        return self.const_val(st, val)

    # ------------------------------------------------------------------ pointers
    def gep(self, base, sty, idx):
        mod = self.mod
        off = base.off
        ty = sty
        for n, i in enumerate(idx):
            if n == 0:
                sz = mod.sizeof(ty)
                off = self.off_add(off, i, sz)
            else:
                ty = mod.resolve(ty)
                if ty.k == "struct":
                    if i.c is None:
                        raise IRUnsupported("symbolic struct index")
                    off = self.off_add(off, IV(64, c=mod.field_offset(ty, i.c)), 1)
                    ty = ty.fields[i.c]
                elif ty.k == "array":
                    ty = ty.elem
                    off = self.off_add(off, i, mod.sizeof(ty))
                else:
                    raise IRUnsupported("gep into %r" % ty)
        return Ptr(base.obj, off)

    def off_add(self, off, i, scale):
        d = self.dom
        if isinstance(i, bool) or not isinstance(i, IV):
            raise IRUnsupported("gep index kind")
        if i.bits < 64:
            i = d.sext(i, 64)
        elif i.bits > 64:
            i = d.trunc(i, 64)
        if scale != 1:
            if i.c is not None:
                i = IV(64, c=i.sc * scale)
            else:
                i = d.binop("mul", i, IV(64, c=scale))
        if i.c == 0:
            return off
        return d.binop("add", off, i)

    def ptrtoint(self, st, p, bits):
        if p.obj is None:
            v = p.off
        elif isinstance(p.obj, tuple):
            v = IV(64, c=0x7F000000 + (hash(p.obj[1]) & 0xFFFF) * 16)
        else:
            v = self.dom.binop("add", self.base_of(st, p.obj), p.off)
        if bits < 64:
            v = self.dom.trunc(v, bits)
        elif bits > 64:
            v = self.dom.zext(v, bits)
        return v

    def mem_transfer(self, st, dobj_id, d0, sobj_id, s0, n, setval):
        """concrete-range memcpy/memmove (sobj_id given) or memset (setval given)"""
        if setval is not None:
            for k in range(n):
                self.store_conc(st, dobj_id, d0 + k, IntTy(8), setval)
            return
        sobj = st.mem[sobj_id]
        if sobj.opaque or st.mem[dobj_id].opaque:
            raise IRUnsupported("memcpy on an opaque object")
        if s0 < 0 or s0 + n > sobj.size:
            raise PathEnd("UB", "oob_memcpy_src")
        if d0 < 0 or d0 + n > st.mem[dobj_id].size:
            raise PathEnd("UB", "oob_memcpy_dst")
        moved = []
        covered = [False] * n
        for coff, (csz, cv) in sobj.cells.items():
            if coff >= s0 and coff + csz <= s0 + n:
                moved.append((coff - s0, csz, cv))
                for k in range(coff - s0, coff - s0 + csz):
                    covered[k] = True
        bs = None
        if not all(covered):
            bs = self.read_bytes(st, sobj, s0, n)
        dobj = st.obj_w(dobj_id)
        if dobj.const:
            raise PathEnd("UB", "store_to_constant")
        for coff in list(dobj.cells.keys()):
            csz, cv = dobj.cells[coff]
            if coff + csz <= d0 or coff >= d0 + n:
                continue
            if coff >= d0 and coff + csz <= d0 + n:
                del dobj.cells[coff]
            else:
                cb = self.val_to_bytes(cv, csz)
                del dobj.cells[coff]
                for k in range(csz):
                    pp = coff + k
                    if pp < d0 or pp >= d0 + n:
                        dobj.cells[pp] = (1, cb[k])
        if bs is not None:
            for k in range(n):
                if not covered[k]:
                    dobj.cells[d0 + k] = (1, bs[k])
        for (ro, csz, cv) in moved:
            dobj.cells[d0 + ro] = (csz, cv)

    def conc(self, iv):
        """try to make a symbolic IV concrete by simplification (e.g. (base+8)-(base+3))"""
        if not isinstance(iv, IV) or iv.c is not None:
            return iv
        try:
            if self.mode == "bv":
                r = z3.simplify(self.dom.E(iv))
                if z3.is_bv_value(r):
                    return IV(iv.bits, c=r.as_long())
            else:
                e = self.dom.S(iv) if iv.pref == "s" else self.dom.U(iv)
                r = z3.simplify(e)
                if z3.is_int_value(r):
                    return IV(iv.bits, c=r.as_long())
        except Exception:
            pass
        return iv

    def base_of(self, st, oid):
        """address of an object: a symbolic, 16-aligned, non-null value (one variable per object) so that results
        which depend on where objects live are recognisably address-dependent"""
        if oid in self.obj_bases:
            return self.obj_bases[oid]
        d = self.dom
        b = d.fresh(64, "addr")
        if self.mode == "bv":
            e = d.E(b)
            self.base_facts.append(z3.Extract(3, 0, e) == 0)
            self.base_facts.append(z3.UGE(e, z3.BitVecVal(0x10000, 64)))
            self.base_facts.append(z3.ULE(e, z3.BitVecVal(0x7FFFFFFF0000, 64)))
        else:
            u = d.U(b)
            self.base_facts.append(u % 16 == 0)
            self.base_facts.append(u >= 0x10000)
            self.base_facts.append(u <= 0x7FFFFFFF0000)
        self.obj_bases[oid] = b
        return b

    def inttoptr(self, st, v):
        if v.bits != 64:
            v = self.dom.zext(v, 64) if v.bits < 64 else self.dom.trunc(v, 64)
        if v.c is not None and v.c == 0:
            return Ptr(None, IV(64, c=0))
        raise IRUnsupported("inttoptr of a symbolic integer")

    def ptr_cmp(self, st, pred, a, b):
        d = self.dom
        if a.obj == b.obj:
            return d.icmp(pred, a.off, b.off)
        if pred == "eq":
            return False
        if pred == "ne":
            return True
        # relational across objects: use the (concrete, arbitrary) layout; noted
        st.notes.append("relational pointer comparison across objects")
        return d.icmp(pred, self.ptrtoint(st, a, 64), self.ptrtoint(st, b, 64))

    # ------------------------------------------------------------------ memory access
    def val_to_bytes(self, v, size):
        d = self.dom
        if isinstance(v, IV):
            bs = d.to_bytes(v)
        elif is_conc_bool(v) or z3.is_bool(v):
            bs = [d.from_bool(v, 8)]
        elif isinstance(v, Ptr):
            return [("ptr", v, i) for i in range(8)]
        elif z3.is_fp(v):
            if self.mode != "bv":
                raise IntUnsupported("fp bytes")
            srt = v.sort()
            if srt.ebits() == 15 and srt.sbits() == 64:
                raise IRUnsupported("byte view of x86_fp80")
            bv = z3.fpToIEEEBV(v)
            bs = d.to_bytes(IV(bv.size(), e=bv))
        else:
            raise IRUnsupported("bytes of %r" % (v,))
        return bs[:size] + [IV(8, c=0)] * (size - len(bs))

    def read_bytes(self, st, obj, off, n):
        """byte list for [off, off+n) of an object (concrete off)"""
        out = [None] * n
        for coff, (csz, cv) in obj.cells.items():
            if coff + csz <= off or coff >= off + n:
                continue
            bs = self.val_to_bytes(cv, csz)
            for k in range(csz):
                p = coff + k - off
                if 0 <= p < n:
                    out[p] = bs[k]
        for i in range(n):
            if out[i] is None:
                out[i] = self.dom.fresh(8, "uninit")
        return out

    def load_conc(self, st, oid, off, ty):
        ty = self.mod.resolve(ty)
        obj = st.mem[oid]
        size = self.store_size(ty)
        if obj.opaque:
            return self.undef_of(ty)
        if off < 0 or off + size > obj.size:
            raise PathEnd("UB", "oob_load")
        cell = obj.cells.get(off)
        if cell is not None and cell[0] == size:
            v = cell[1]
            if ty.k == "int":
                if isinstance(v, IV) and v.bits == ty.bits:
                    return v
                if ty.bits == 1 and (is_conc_bool(v) or z3.is_bool(v)):
                    return v
                if ty.bits == 8 and (is_conc_bool(v) or z3.is_bool(v)):
                    return self.dom.from_bool(v, 8)
                if ty.bits == 1 and isinstance(v, IV):
                    return self.dom.to_bool(v)
            elif ty.k == "ptr" and isinstance(v, Ptr):
                return v
            elif ty.k == "fp" and not isinstance(v, (IV, Ptr)) and z3.is_fp(v) and v.sort() == fpsort(ty.name):
                return v
        if ty.k == "int" and ty.bits == size * 8:
            v = self.load_from_cells(obj, off, size)
            if v is not None:
                return v
        bs = self.read_bytes(st, obj, off, size)
        if ty.k == "ptr":
            if all(isinstance(b, tuple) and b[0] == "ptr" and b[2] == i and b[1] is bs[0][1] for i, b in enumerate(bs)):
                return bs[0][1]
            if all(isinstance(b, IV) and b.c == 0 for b in bs):
                return Ptr(None, IV(64, c=0))
            if all(isinstance(b, IV) for b in bs):
                return self.inttoptr(st, self.dom.from_bytes(bs, 64))
            raise IRUnsupported("load of a partial pointer")
        if any(isinstance(b, tuple) for b in bs):
            raise IRUnsupported("load of pointer bytes as data")
        if ty.k == "int":
            v = self.dom.from_bytes(bs, ty.bits)
            if ty.bits == 1:
                return self.dom.to_bool(v)
            return v
        if ty.k == "fp":
            if ty.name == "x86_fp80":
                raise IRUnsupported("byte-assembled x86_fp80")
            bits = size * 8
            v = self.dom.from_bytes(bs, bits)
            return z3.fpBVToFP(self.dom.E(v), fpsort(ty.name))
        raise IRUnsupported("load of %r" % ty)

    def load_from_cells(self, obj, off, size):
        """integer load assembled from whole integer cells (no byte splitting), or a sub-range of one cell"""
        d = self.dom
        parts = []
        pos = off
        end = off + size
        while pos < end:
            c = obj.cells.get(pos)
            if c is None or not isinstance(c[1], IV) or c[1].bits != c[0] * 8 or pos + c[0] > end:
                parts = None
                break
            parts.append((pos - off, c[0], c[1]))
            pos += c[0]
        if parts:
            if len(parts) == 1:
                return parts[0][2]
            if self.mode == "bv":
                return IV(size * 8, e=z3.Concat(*[d.E(p[2]) for p in reversed(parts)]))
            e = None
            for (ro, csz, iv) in parts:
                t = d.U(iv) * (1 << (8 * ro)) if ro else d.U(iv)
                e = t if e is None else e + t
            r = d.mk_u(size * 8, e)
            r.cat = [(8 * ro, iv) for (ro, csz, iv) in parts]
            r.urng = (0, (1 << (size * 8)) - 1)
            return r
        # sub-range of a single larger integer cell
        for coff, (csz, cv) in obj.cells.items():
            if coff <= off and off + size <= coff + csz and isinstance(cv, IV) and cv.bits == csz * 8 and csz > size:
                sh = 8 * (off - coff)
                if cv.c is not None:
                    return IV(size * 8, c=(cv.c >> sh))
                if self.mode == "bv":
                    return IV(size * 8, e=z3.Extract(sh + size * 8 - 1, sh, d.E(cv)))
                if cv.cat is not None:
                    hi_ = d.cat_high(cv, sh) if sh else cv
                    if hi_ is not None:
                        lo_ = d.cat_low(hi_, size * 8) if hi_.bits > size * 8 else hi_
                        if lo_ is not None and lo_.bits == size * 8:
                            return lo_
                e = d.U(cv)
                if sh:
                    e = e / (1 << sh)
                if sh + size * 8 < cv.bits:
                    e = e % (1 << (size * 8))
                return d.mk_u(size * 8, e)
        return None

    def store_conc(self, st, oid, off, ty, v):
        ty = self.mod.resolve(ty)
        size = self.store_size(ty)
        obj = st.obj_w(oid)
        if obj.opaque:
            return
        if obj.const:
            raise PathEnd("UB", "store_to_constant")
        if off < 0 or off + size > obj.size:
            raise PathEnd("UB", "oob_store")
        # split partially overlapped cells into bytes
        for coff in list(obj.cells.keys()):
            csz, cv = obj.cells[coff]
            if coff + csz <= off or coff >= off + size:
                continue
            if coff >= off and coff + csz <= off + size:
                del obj.cells[coff]
                continue
            bs = self.val_to_bytes(cv, csz)
            del obj.cells[coff]
            for k in range(csz):
                p = coff + k
                if p < off or p >= off + size:
                    obj.cells[p] = (1, bs[k]) if isinstance(bs[k], IV) else (1, bs[k])
        obj.cells[off] = (size, v)

    def access_offsets(self, st, p, size, what):
        """Return list of (cond, concrete offset) for an access; forks are expressed by the caller.
        Raises PathEnd for definite violations."""
        if p.obj is None:
            raise PathEnd("UB", "null_" + what)
        if isinstance(p.obj, tuple):
            raise IRUnsupported("data access through a function pointer")
        obj = st.mem[p.obj]
        if p.off.c is None:
            p.off = self.conc(p.off)
        if p.off.c is not None:
            return [(True, p.off.sc)]
        if obj.size > 4096:
            raise IRUnsupported("symbolic offset into a large object")
        if self.guide is not None:
            for k in range(0, obj.size - size + 1):
                c = zb(self.dom.icmp("eq", p.off, IV(64, c=k)))
                if self.guide_truth(c):
                    st.pc.append(c)
                    return [(True, k)]
            raise PathEnd("UB", "oob_" + what)
        if obj.size <= 96:
            # keep only the offsets the path condition allows (usually exactly one)
            out = []
            for k in range(0, obj.size - size + 1):
                c = zb(self.dom.icmp("eq", p.off, IV(64, c=k)))
                if self.feasible(st, c) is not False:
                    out.append((c, k))
            if len(out) == 1:
                oob = z3.Not(out[0][0])
                if self.feasible(st, oob) is False:
                    return [(True, out[0][1])]
            return out
        if self.mode != "bv":
            raise IntUnsupported("symbolic offset memory access into a large object")
        e = self.dom.E(p.off)
        return [(e == z3.BitVecVal(k, 64), k) for k in range(0, obj.size - size + 1)]

    # ------------------------------------------------------------------ feasibility
    def guide_truth(self, cond):
        """truth of a condition under the guiding concrete input (fresh/undef variables read as 0)"""
        if is_conc_bool(cond):
            return cond
        r = z3.simplify(z3.substitute(cond, *self.guide)) if self.guide else z3.simplify(cond)
        if z3.is_true(r):
            return True
        if z3.is_false(r):
            return False
        # leftover fresh variables: bind them to zero
        extra = []
        for v in self.dom.fresh_vars:
            if z3.is_bv(v):
                extra.append((v, z3.BitVecVal(0, v.size())))
            elif z3.is_int(v):
                extra.append((v, z3.IntVal(0)))
        if extra:
            r = z3.simplify(z3.substitute(r, *extra))
            if z3.is_true(r):
                return True
            if z3.is_false(r):
                return False
        raise IRUnsupported("guided execution: condition not decided by the guiding input")

    def feasible(self, st, cond):
        """True / False / None(unknown)"""
        if cond is True:
            return True
        if cond is False:
            return False
        if self.guide is not None:
            return self.guide_truth(cond)
        self.prune_calls += 1
        if self.deadline is not None:
            import time as _t
            if _t.time() > self.deadline:
                raise IRUnsupported("time budget exceeded during symbolic execution")
        s = self.solver
        s.push()
        try:
            for f in self.base_facts:
                s.add(f)
            for f in getattr(self.dom, "facts", []):
                s.add(f)
            for c in st.pc:
                s.add(c)
            s.add(cond)
            r = s.check()
        finally:
            s.pop()
        if r == z3.sat:
            return True
        if r == z3.unsat:
            return False
        self.prune_unknown += 1
        return None

    # ------------------------------------------------------------------ main loop
    def run(self, fname, args, setup=None):
        fn = self.mod.funcs[fname]
        st = State()
        if setup is not None:
            args = setup(self, st)
        fr = Frame(fn)
        if len(args) != len(fn.params):
            raise IRUnsupported("argument count for " + fname)
        for (pty, pname, attrs), a in zip(fn.params, args):
            fr.locals[pname] = a
        st.frames.append(fr)
        self.paths = []
        work = [st]
        while work:
            st = work.pop()
            try:
                self.run_path(st, work)
            except PathEnd as pe:
                pth = Path(st.pc, pe.kind, pe.payload, st.mem, st.notes, st.msgs)
                pth.trace = tuple(st.trace)
                self.paths.append(pth)
            if len(self.paths) + len(work) > self.max_paths:
                raise IRUnsupported("path explosion (> %d paths)" % self.max_paths)
        return self.paths

    def fork(self, st, work, cond, force_check=False):
        """Continue the current state under cond; push a clone under not cond.  Returns after
        having added cond to st.pc; raises PathEnd('INFEASIBLE') if only the other side is possible."""
        raise NotImplementedError

    def branch(self, st, work, cond, tgt_true, tgt_false):
        fr = st.frames[-1]
        if is_conc_bool(cond):
            if self.record_trace:
                st.trace.append(tgt_true if cond else tgt_false)
            self.goto(st, tgt_true if cond else tgt_false)
            return
        cs = z3.simplify(cond)
        if z3.is_true(cs):
            self.goto(st, tgt_true)
            return
        if z3.is_false(cs):
            self.goto(st, tgt_false)
            return
        if self.guide is not None:
            t = self.guide_truth(cs)
            st.pc.append(cs if t else z3.Not(cs))
            st.trace.append(tgt_true if t else tgt_false)
            self.goto(st, tgt_true if t else tgt_false)
            return
        ft = self.feasible(st, cs)
        if ft is False:
            self.goto(st, tgt_false)
            return
        ff = self.feasible(st, z3.Not(cs))
        if ff is False:
            self.goto(st, tgt_true)
            return
        if self.merge and self.try_merge(st, work, cs, tgt_true, tgt_false):
            return
        other = st.clone()
        other.pc.append(z3.Not(cs))
        self.goto(other, tgt_false, defer=True)
        work.append(other)
        st.pc.append(cs)
        self.goto(st, tgt_true)

    PURE_OPS = {"add", "sub", "mul", "shl", "lshr", "ashr", "and", "or", "xor", "icmp", "select", "zext", "sext",
                "trunc", "extractvalue", "insertvalue", "freeze", "bitcast", "getelementptr"}
    PURE_INTRINSICS = ("llvm.sadd.", "llvm.ssub.", "llvm.smul.", "llvm.uadd.", "llvm.usub.", "llvm.umul.", "llvm.ctlz.",
                       "llvm.cttz.", "llvm.ctpop.", "llvm.smax.", "llvm.smin.", "llvm.umax.", "llvm.umin.", "llvm.abs.",
                       "llvm.fshl.", "llvm.fshr.", "llvm.bswap.", "llvm.lifetime.", "llvm.expect.")

    def trap_kind(self, fn, name):
        """ubsantrap-only block -> kind string, else None"""
        blk = fn.blocks[name]
        if len(blk.instrs) == 2 and blk.instrs[0].op == "call" and blk.instrs[1].op == "unreachable":
            cal = blk.instrs[0].x["callee"]
            if cal.k == "global" and cal.v == "llvm.ubsantrap":
                k = blk.instrs[0].ops[0].v
                return UBSAN_KINDS.get(k, "ubsan_%d" % k)
        return None

    def pure_instr(self, ins):
        if ins.op in self.PURE_OPS:
            return True
        return ins.op == "call" and ins.x["callee"].k == "global" and ins.x["callee"].v.startswith(self.PURE_INTRINSICS)

    def arm_shape(self, fn, start, limit=6):
        """follow a chain of pure blocks whose only conditional branches guard ubsantrap blocks.
        -> (join block reached by the final unconditional branch, list of block names) or None"""
        key = (fn.name, start)
        if key in self._simple_cache:
            return self._simple_cache[key]
        chain = []
        cur = start
        res = None
        while len(chain) < limit:
            blk = fn.blocks[cur]
            if any(i.op == "phi" for i in blk.instrs) and chain:
                # a block with phis inside a chain is itself a join candidate
                res = (cur, list(chain))
                break
            if not all(self.pure_instr(i) for i in blk.instrs[:-1]) or len(blk.instrs) > 40:
                break
            if any(i.op == "phi" for i in blk.instrs):
                break
            chain.append(cur)
            last = blk.instrs[-1]
            if last.op != "br":
                break
            t = last.x["targets"]
            if len(t) == 1:
                nxt = t[0]
                if any(i.op == "phi" for i in fn.blocks[nxt].instrs) or not self._single_chain(fn, nxt):
                    res = (nxt, list(chain))
                    break
                cur = nxt
                continue
            tk0, tk1 = self.trap_kind(fn, t[0]), self.trap_kind(fn, t[1])
            if tk0 is None and tk1 is None:
                break
            if tk0 is not None and tk1 is not None:
                break
            cur = t[1] if tk0 is not None else t[0]
        self._simple_cache[key] = res
        return res

    def _single_chain(self, fn, name):
        return False

    def run_arm(self, st, work, fn, chain, armcond):
        """execute the blocks of an arm speculatively; trap exits become UB paths guarded by armcond.
        returns (last block name, list of extra exclusion facts)"""
        excl = []
        fr = st.frames[-1]
        for bi, bname in enumerate(chain):
            blk = fn.blocks[bname]
            for ins in blk.instrs[:-1]:
                self.step(st, work, ins)
            last = blk.instrs[-1]
            t = last.x["targets"]
            if len(t) == 2:
                c = self.ev(st, last.ops[0])
                tk0 = self.trap_kind(fn, t[0])
                kind = tk0 if tk0 is not None else self.trap_kind(fn, t[1])
                trapc = c if tk0 is not None else b_not(c)
                if trapc is False:
                    continue
                full = b_and(armcond, trapc)
                fz = z3.simplify(zb(full))
                if z3.is_false(fz):
                    continue
                feas = self.feasible(st, fz)
                if feas is not False:
                    self.paths.append(Path(st.pc + [fz], "UB", kind, None, list(st.notes), list(st.msgs)))
                    excl.append(z3.Not(fz))
        return chain[-1], excl

    def try_merge(self, st, work, cs, tA, tB):
        """if-conversion of diamonds/triangles whose arms are pure (apart from guarded ubsantrap exits):
        execute both arms speculatively and merge the join's phis with ite"""
        fr = st.frames[-1]
        fn = fr.fn
        cur = fr.block
        if tA == tB:
            return False
        sA, sB = self.arm_shape(fn, tA), self.arm_shape(fn, tB)
        if sA is not None and sB is not None and sA[0] == sB[0]:
            join, arms = sA[0], (sA[1], sB[1])
        elif sA is not None and sA[0] == tB:
            join, arms = tB, (sA[1], None)
        elif sB is not None and sB[0] == tA:
            join, arms = tA, (None, sB[1])
        else:
            return False
        jblk = fn.blocks[join]
        saved = (fr.block, fr.prev, fr.idx, dict(fr.locals), len(self.paths), list(st.pc))
        preds = []
        excl = []
        try:
            for arm, ac in zip(arms, (cs, z3.Not(cs))):
                if arm is None:
                    preds.append(cur)
                    continue
                lastb, ex_ = self.run_arm(st, work, fn, arm, ac)
                preds.append(lastb)
                excl += ex_
            vals = []
            k = 0
            for ins in jblk.instrs:
                if ins.op != "phi":
                    break
                k += 1
                inc = dict((lab, v) for (v, lab) in ins.x["incoming"])
                if preds[0] not in inc or preds[1] not in inc:
                    raise IRUnsupported("phi incoming")
                vA = self.ev(st, inc[preds[0]])
                vB = self.ev(st, inc[preds[1]])
                vals.append((ins.dest, self.select(st, work, cs, vA, vB)))
        except (PathEnd, IRUnsupported, IntUnsupported):
            fr.block, fr.prev, fr.idx = saved[0], saved[1], saved[2]
            fr.locals = saved[3]
            del self.paths[saved[4]:]
            st.pc[:] = saved[5]
            return False
        for dname, v in vals:
            fr.locals[dname] = v
        st.pc.extend(excl)
        keyv = (len(st.frames), fn.name, join)
        cnt = st.visits.get(keyv, 0) + 1
        st.visits[keyv] = cnt
        fr.prev = preds[0]
        fr.block = join
        fr.idx = k
        self.merged += 1
        if cnt > self.unwind:
            raise PathEnd("UNWIND", "%s:%s" % (fn.name, join))
        return True

    def goto(self, st, label, defer=False):
        fr = st.frames[-1]
        key = (len(st.frames), fr.fn.name, label)
        cnt = st.visits.get(key, 0) + 1
        st.visits[key] = cnt
        fr.prev = fr.block
        fr.block = label
        fr.idx = 0
        if cnt > self.unwind:
            if defer:
                fr.idx = -1  # marker: ends when resumed
            else:
                raise PathEnd("UNWIND", "%s:%s" % (fr.fn.name, label))

    def split(self, st, work, cond):
        """two-way split on a value-level condition (select on pointers, bounds checks):
        returns True/False for the side this state continues on; the other side is queued to
        re-execute the same instruction with the condition decided."""
        if is_conc_bool(cond):
            return cond
        cs = z3.simplify(cond)
        if z3.is_true(cs):
            return True
        if z3.is_false(cs):
            return False
        ft = self.feasible(st, cs)
        if ft is False:
            st.pc.append(z3.Not(cs))
            return False
        ff = self.feasible(st, z3.Not(cs))
        if ff is False:
            st.pc.append(cs)
            return True
        other = st.clone()
        other.pc.append(z3.Not(cs))
        work.append(other)
        st.pc.append(cs)
        return True

    def run_path(self, st, work):
        while True:
            fr = st.frames[-1]
            if fr.idx == -1:
                raise PathEnd("UNWIND", "%s:%s" % (fr.fn.name, fr.block))
            blk = fr.fn.blocks[fr.block]
            # phis first (parallel)
            if fr.idx == 0:
                vals = []
                k = 0
                for ins in blk.instrs:
                    if ins.op != "phi":
                        break
                    k += 1
                    for (v, lab) in ins.x["incoming"]:
                        if lab == fr.prev:
                            vals.append((ins.dest, self.ev(st, v)))
                            break
                    else:
                        raise IRUnsupported("phi without incoming for %s" % fr.prev)
                for dname, v in vals:
                    fr.locals[dname] = v
                fr.idx = k
            ins = blk.instrs[fr.idx]
            st.steps += 1
            if self.deadline is not None and (st.steps & 255) == 0:
                import time as _t
                if _t.time() > self.deadline:
                    raise IRUnsupported("time budget exceeded during symbolic execution")
            if st.steps > self.max_steps:
                raise PathEnd("UNWIND", "step budget")
            fr.idx += 1
            self.step(st, work, ins)

    # ------------------------------------------------------------------ instructions
    def step(self, st, work, ins):
        op = ins.op
        fr = st.frames[-1]
        d = self.dom
        L = fr.locals
        if op in ("add", "sub", "mul", "udiv", "sdiv", "urem", "srem", "shl", "lshr", "ashr", "and", "or", "xor"):
            a = self.ev(st, ins.ops[0])
            b = self.ev(st, ins.ops[1])
            if not isinstance(a, IV):  # i1
                if op == "and":
                    L[ins.dest] = b_and(a, b)
                elif op == "or":
                    L[ins.dest] = b_or(a, b)
                elif op in ("xor", "add", "sub"):
                    L[ins.dest] = b_xor(a, b)
                elif op == "mul":
                    L[ins.dest] = b_and(a, b)
                else:
                    raise IRUnsupported("i1 " + op)
                return
            if op in ("shl", "lshr", "ashr") and b.c is not None and b.c >= a.bits:
                L[ins.dest] = d.fresh(a.bits, "poison")
                return
            if op in ("udiv", "sdiv", "urem", "srem") and b.c == 0:
                raise PathEnd("UB", "division_by_zero_unsanitized")
            L[ins.dest] = d.binop(op, a, b)
            return
        if op == "icmp":
            a = self.ev(st, ins.ops[0])
            b = self.ev(st, ins.ops[1])
            pred = ins.x["pred"]
            if isinstance(a, Ptr):
                L[ins.dest] = self.ptr_cmp(st, pred, a, b)
            elif isinstance(a, IV):
                L[ins.dest] = d.icmp(pred, a, b)
            else:  # i1
                if pred == "eq":
                    L[ins.dest] = b_not(b_xor(a, b))
                elif pred == "ne":
                    L[ins.dest] = b_xor(a, b)
                elif pred in ("ult", "sgt"):  # a<b unsigned: !a & b ; signed: true(-1) < false(0)
                    L[ins.dest] = b_and(b_not(a), b) if pred == "ult" else b_and(b_not(a), b)
                elif pred in ("ugt", "slt"):
                    L[ins.dest] = b_and(a, b_not(b))
                elif pred in ("ule", "sge"):
                    L[ins.dest] = b_or(b_not(a), b)
                elif pred in ("uge", "sle"):
                    L[ins.dest] = b_or(a, b_not(b))
                else:
                    raise IRUnsupported("i1 icmp " + pred)
            return
        if op in ("zext", "sext", "trunc"):
            a = self.ev(st, ins.ops[0])
            ty = ins.ty
            if isinstance(a, IV):
                if ty.bits == 1:
                    L[ins.dest] = d.to_bool(a)
                else:
                    L[ins.dest] = getattr(d, op)(a, ty.bits)
            else:
                L[ins.dest] = d.from_bool(a, ty.bits) if op == "zext" else (
                    d.from_bool_sext(a, ty.bits) if op == "sext" else a)
            return
        if op == "select":
            c = self.ev(st, ins.ops[0])
            a = self.ev(st, ins.ops[1])
            b = self.ev(st, ins.ops[2])
            if isinstance(a, Ptr) and a.obj != b.obj and not is_conc_bool(c):
                cs = z3.simplify(c)
                if z3.is_true(cs):
                    L[ins.dest] = a
                elif z3.is_false(cs):
                    L[ins.dest] = b
                elif self.guide is not None:
                    t = self.guide_truth(cs)
                    st.pc.append(cs if t else z3.Not(cs))
                    L[ins.dest] = a if t else b
                else:
                    ft = self.feasible(st, cs)
                    ff = self.feasible(st, z3.Not(cs)) if ft is not False else True
                    if ft is False:
                        L[ins.dest] = b
                    elif ff is False:
                        L[ins.dest] = a
                    else:
                        o = st.clone()
                        o.pc.append(z3.Not(cs))
                        o.frames[-1].locals[ins.dest] = b
                        work.append(o)
                        st.pc.append(cs)
                        st.frames[-1].locals[ins.dest] = a
                return
            L[ins.dest] = self.select(st, work, c, a, b, ins)
            return
        if op == "br":
            t = ins.x["targets"]
            if len(t) == 1:
                self.goto(st, t[0])
            else:
                self.branch(st, work, self.ev(st, ins.ops[0]), t[0], t[1])
            return
        if op == "switch":
            v = self.ev(st, ins.ops[0])
            cases = ins.x["cases"]
            if isinstance(v, IV) and v.c is not None:
                for cv, lab in cases:
                    if (cv & mask(v.bits)) == v.c:
                        self.goto(st, lab)
                        return
                self.goto(st, ins.x["default"])
                return
            if self.guide is not None:
                for cv, lab in cases:
                    c = zb(d.icmp("eq", v, IV(v.bits, c=cv))) if isinstance(v, IV) else zb(v if cv & 1 else b_not(v))
                    if self.guide_truth(c):
                        st.pc.append(c)
                        st.trace.append(lab)
                        self.goto(st, lab)
                        return
                    st.pc.append(z3.Not(c))
                st.trace.append(ins.x["default"])
                self.goto(st, ins.x["default"])
                return
            # fork over cases
            rest = []
            for cv, lab in cases:
                if isinstance(v, IV):
                    c = d.icmp("eq", v, IV(v.bits, c=cv))
                else:
                    c = v if cv & 1 else b_not(v)
                if self.feasible(st, zb(c)) is not False:
                    o = st.clone()
                    o.pc.append(zb(c))
                    self.goto(o, lab, defer=True)
                    work.append(o)
                rest.append(z3.Not(zb(c)))
            dc = z3.And(*rest) if len(rest) > 1 else rest[0]
            if self.feasible(st, dc) is False:
                raise PathEnd("INFEASIBLE")
            st.pc.append(dc)
            self.goto(st, ins.x["default"])
            return
        if op == "ret":
            v = self.ev(st, ins.ops[0]) if ins.ops else None
            self.do_ret(st, v)
            return
        if op == "unreachable":
            raise PathEnd("UB", "unreachable_executed")
        if op == "phi":
            raise IRUnsupported("phi in the middle of a block")
        if op == "alloca":
            aty = ins.x["aty"]
            n = 1
            if ins.ops:
                c = self.ev(st, ins.ops[0])
                if c.c is None:
                    raise IRUnsupported("variable-sized alloca")
                n = c.c
            oid = self.new_obj(st, self.mod.sizeof(aty) * n, "alloca:%s:%s" % (fr.fn.name, ins.dest))
            L[ins.dest] = Ptr(oid, IV(64, c=0))
            return
        if op == "load":
            p = self.ev(st, ins.ops[0])
            L[ins.dest] = self.do_load(st, work, p, ins.ty)
            return
        if op == "store":
            v = self.ev(st, ins.ops[0])
            p = self.ev(st, ins.ops[1])
            self.do_store(st, work, p, ins.ops[0].ty, v)
            return
        if op == "getelementptr":
            base = self.ev(st, ins.ops[0])
            idx = [self.ev(st, o) for o in ins.ops[1:]]
            L[ins.dest] = self.gep(base, ins.x["sty"], idx)
            return
        if op in ("bitcast", "addrspacecast"):
            a = self.ev(st, ins.ops[0])
            sty = self.mod.resolve(ins.ops[0].ty)
            dty = self.mod.resolve(ins.ty)
            if sty.k == "ptr" and dty.k == "ptr":
                L[ins.dest] = a
            elif sty.k == "fp" and dty.k == "int":
                if sty.name == "x86_fp80":
                    raise IRUnsupported("bitcast x86_fp80")
                L[ins.dest] = IV(dty.bits, e=z3.fpToIEEEBV(a))
            elif sty.k == "int" and dty.k == "fp":
                if dty.name == "x86_fp80":
                    raise IRUnsupported("bitcast x86_fp80")
                L[ins.dest] = z3.fpBVToFP(d.E(a), fpsort(dty.name))
            elif sty.k == "int" and dty.k == "int":
                L[ins.dest] = a
            else:
                raise IRUnsupported("bitcast %r -> %r" % (sty, dty))
            return
        if op == "ptrtoint":
            L[ins.dest] = self.ptrtoint(st, self.ev(st, ins.ops[0]), ins.ty.bits)
            return
        if op == "inttoptr":
            L[ins.dest] = self.inttoptr(st, self.ev(st, ins.ops[0]))
            return
        if op == "extractvalue":
            a = self.ev(st, ins.ops[0])
            for i in ins.x["idx"]:
                a = a[i]
            L[ins.dest] = a
            return
        if op == "insertvalue":
            a = self.ev(st, ins.ops[0])
            v = self.ev(st, ins.ops[1])
            L[ins.dest] = self.insert(a, ins.x["idx"], v)
            return
        if op == "freeze":
            L[ins.dest] = self.ev(st, ins.ops[0])
            return
        if op in ("call", "invoke"):
            self.do_call(st, work, ins)
            return
        if op in ("fadd", "fsub", "fmul", "fdiv", "frem", "fneg", "fcmp", "fpext", "fptrunc", "fptosi", "fptoui",
                  "sitofp", "uitofp"):
            self.fp_op(st, ins)
            return
        if op == "landingpad":
            raise IRUnsupported("landingpad reached")
        if op == "resume":
            raise IRUnsupported("resume reached")
        if op == "fence":
            return
        raise IRUnsupported("instruction " + op)

    def insert(self, agg, idx, v):
        agg = list(agg)
        if len(idx) == 1:
            agg[idx[0]] = v
        else:
            agg[idx[0]] = self.insert(agg[idx[0]], idx[1:], v)
        return agg

    def select(self, st, work, c, a, b, ins=None):
        d = self.dom
        if is_conc_bool(c):
            return a if c else b
        if isinstance(a, IV):
            return d.select(c, a, b)
        if isinstance(a, Ptr):
            if a.obj == b.obj:
                return Ptr(a.obj, d.select(c, a.off, b.off))
            raise IRUnsupported("select between pointers into different objects (nested)")
        if isinstance(a, list):
            return [self.select(st, work, c, x, y) for x, y in zip(a, b)]
        if is_conc_bool(a) or z3.is_bool(a):
            return b_ite(c, a, b)
        if z3.is_fp(a):
            return z3.If(c, a, b)
        raise IRUnsupported("select on %r" % (a,))

    def do_ret(self, st, v):
        fr = st.frames.pop()
        for oid in fr.allocas:
            pass
        if not st.frames:
            raise PathEnd("RET", v)
        caller = st.frames[-1]
        if fr.ret_dest is not None:
            caller.locals[fr.ret_dest] = v
        if fr.ret_to is not None:
            self.goto(st, fr.ret_to)

    def do_load(self, st, work, p, ty):
        rty = self.mod.resolve(ty)
        if rty.k in ("struct", "array"):
            return self.load_agg(st, work, p, rty)
        size = self.store_size(rty)
        offs = self.access_offsets(st, p, size, "load")
        if len(offs) == 1 and offs[0][0] is True:
            return self.load_conc(st, p.obj, offs[0][1], rty)
        # symbolic offset: in-bounds check then ite-chain
        inb = z3.Or(*[c for c, _ in offs]) if offs else False
        if not self.split_expect_true(st, work, inb):
            raise PathEnd("UB", "oob_load")
        res = None
        for c, k in reversed(offs):
            v = self.load_conc(st, p.obj, k, rty)
            res = v if res is None else self.select(st, work, c, v, res)
        return res

    def load_agg(self, st, work, p, ty):
        out = []
        if ty.k == "struct":
            for i, f in enumerate(ty.fields):
                q = Ptr(p.obj, self.off_add(p.off, IV(64, c=self.mod.field_offset(ty, i)), 1))
                out.append(self.do_load(st, work, q, f))
        else:
            es = self.mod.sizeof(ty.elem)
            for i in range(ty.n):
                q = Ptr(p.obj, self.off_add(p.off, IV(64, c=i * es), 1))
                out.append(self.do_load(st, work, q, ty.elem))
        return out

    def split_expect_true(self, st, work, cond):
        """fork on cond; this state keeps the true side, the false side becomes a queued UB path.
        Returns False if only the false side is feasible."""
        if is_conc_bool(cond):
            return cond
        cs = z3.simplify(cond)
        if z3.is_true(cs):
            return True
        if z3.is_false(cs):
            return False
        if self.guide is not None:
            if self.guide_truth(cs):
                st.pc.append(cs)
                return True
            st.pc.append(z3.Not(cs))
            raise PathEnd("UB", "oob_access")
        ff = self.feasible(st, z3.Not(cs))
        if ff is not False:
            self.paths.append(Path(st.pc + [z3.Not(cs)], "UB", "oob_access", None, st.notes, st.msgs))
        ft = self.feasible(st, cs)
        if ft is False:
            raise PathEnd("INFEASIBLE")
        st.pc.append(cs)
        return True

    def do_store(self, st, work, p, ty, v):
        rty = self.mod.resolve(ty)
        if rty.k in ("struct", "array"):
            if rty.k == "struct":
                for i, f in enumerate(rty.fields):
                    q = Ptr(p.obj, self.off_add(p.off, IV(64, c=self.mod.field_offset(rty, i)), 1))
                    self.do_store(st, work, q, f, v[i])
            else:
                es = self.mod.sizeof(rty.elem)
                for i in range(rty.n):
                    q = Ptr(p.obj, self.off_add(p.off, IV(64, c=i * es), 1))
                    self.do_store(st, work, q, rty.elem, v[i])
            return
        size = self.store_size(rty)
        offs = self.access_offsets(st, p, size, "store")
        if len(offs) == 1 and offs[0][0] is True:
            self.store_conc(st, p.obj, offs[0][1], rty, v)
            return
        inb = z3.Or(*[c for c, _ in offs]) if offs else False
        if not self.split_expect_true(st, work, inb):
            raise PathEnd("UB", "oob_store")
        for c, k in offs:
            old = self.load_conc(st, p.obj, k, rty)
            self.store_conc(st, p.obj, k, rty, self.select(st, work, c, v, old))

    # ------------------------------------------------------------------ floating point
    def fp_op(self, st, ins):
        if self.mode != "bv":
            raise IntUnsupported("floating point in INT mode")
        op = ins.op
        L = st.frames[-1].locals
        d = self.dom
        if op in ("fadd", "fsub", "fmul", "fdiv"):
            a = self.ev(st, ins.ops[0])
            b = self.ev(st, ins.ops[1])
            f = {"fadd": z3.fpAdd, "fsub": z3.fpSub, "fmul": z3.fpMul, "fdiv": z3.fpDiv}[op]
            L[ins.dest] = f(RNE, a, b)
        elif op == "frem":
            raise IRUnsupported("frem")
        elif op == "fneg":
            L[ins.dest] = z3.fpNeg(self.ev(st, ins.ops[0]))
        elif op == "fcmp":
            a = self.ev(st, ins.ops[0])
            b = self.ev(st, ins.ops[1])
            pred = ins.x["pred"]
            uno = z3.Or(z3.fpIsNaN(a), z3.fpIsNaN(b))
            base = {"eq": z3.fpEQ(a, b), "gt": z3.fpGT(a, b), "ge": z3.fpGEQ(a, b), "lt": z3.fpLT(a, b),
                    "le": z3.fpLEQ(a, b), "ne": z3.Not(z3.fpEQ(a, b))}
            if pred == "true":
                r = True
            elif pred == "false":
                r = False
            elif pred == "ord":
                r = z3.Not(uno)
            elif pred == "uno":
                r = uno
            elif pred[0] == "o":
                r = z3.And(z3.Not(uno), base[pred[1:]])
            else:
                r = z3.Or(uno, base[pred[1:]])
            L[ins.dest] = r
        elif op in ("fpext", "fptrunc"):
            a = self.ev(st, ins.ops[0])
            L[ins.dest] = z3.fpFPToFP(RNE, a, fpsort(self.mod.resolve(ins.ty).name))
        elif op in ("fptosi", "fptoui"):
            a = self.ev(st, ins.ops[0])
            bits = ins.ty.bits
            if op == "fptosi":
                r = z3.fpToSBV(RTZ, a, z3.BitVecSort(bits))
            else:
                r = z3.fpToUBV(RTZ, a, z3.BitVecSort(bits))
            # out-of-range is poison: the sanitized IR guards it with a float_cast_overflow trap.
            L[ins.dest] = IV(bits, e=r) if bits > 1 else (r == 1)
        elif op in ("sitofp", "uitofp"):
            a = self.ev(st, ins.ops[0])
            srt = fpsort(self.mod.resolve(ins.ty).name)
            if not isinstance(a, IV):
                a = d.from_bool(a, 8) if op == "uitofp" else d.from_bool_sext(a, 8)
            if op == "sitofp":
                L[ins.dest] = z3.fpSignedToFP(RNE, d.E(a), srt)
            else:
                L[ins.dest] = z3.fpUnsignedToFP(RNE, d.E(a), srt)
        else:
            raise IRUnsupported(op)

    # ------------------------------------------------------------------ calls
    def do_call(self, st, work, ins):
        fr = st.frames[-1]
        cal = ins.x["callee"]
        if cal.k == "global":
            name = cal.v
        elif cal.k == "local":
            p = fr.locals[cal.v]
            if not (isinstance(p, Ptr) and isinstance(p.obj, tuple)):
                raise IRUnsupported("indirect call through a non-constant pointer")
            name = p.obj[1]
        else:
            p = self.const_val(st, cal)
            if not (isinstance(p, Ptr) and isinstance(p.obj, tuple)):
                raise IRUnsupported("call through constant expression")
            name = p.obj[1]
        args = [self.ev(st, a) for a in ins.ops]
        normal = ins.x.get("normal")
        if name.startswith("llvm."):
            r = self.intrinsic(st, work, name, args, ins)
            if ins.dest is not None:
                fr.locals[ins.dest] = r
            if normal:
                self.goto(st, normal)
            return
        fn = self.mod.funcs.get(name)
        if fn is not None and not fn.is_decl:
            self.funcs_reached.add(name)
            if len(st.frames) > self.unwind + 8:
                raise PathEnd("UNWIND", "recursion depth")
            nf = Frame(fn)
            for (pty, pname, attrs), a in zip(fn.params, args):
                nf.locals[pname] = a
            nf.ret_dest = ins.dest
            nf.ret_to = normal
            key = (len(st.frames) + 1, fn.name, nf.block)
            st.visits[key] = st.visits.get(key, 0)
            st.frames.append(nf)
            return
        r = self.stub(st, work, name, args, ins)
        if ins.dest is not None:
            fr.locals[ins.dest] = r
        if normal:
            self.goto(st, normal)

    def cstring(self, st, p):
        if p.obj is None or isinstance(p.obj, tuple) or p.off.c is None:
            return None
        obj = st.mem[p.obj]
        out = bytearray()
        o = p.off.c
        while o < obj.size:
            c = obj.cells.get(o)
            if c is None or not isinstance(c[1], IV) or c[1].c is None or c[0] != 1:
                return None
            if c[1].c == 0:
                break
            out.append(c[1].c)
            o += 1
        return out.decode("latin1")

    def stub(self, st, work, name, args, ins):
        self.stubs_used.add(name)
        d = self.dom
        if name == "fputs":
            msg = self.cstring(st, args[0])
            st.last_msg = msg
            st.msgs.append(msg)
            return IV(32, c=1)
        if name in ("fputc", "putc"):
            return IV(32, c=10)
        if name == "abort":
            raise PathEnd("TRAP", st.last_msg)
        if name == "__cxa_allocate_exception":
            oid = self.new_obj(st, args[0].c or 64, "exception")
            return Ptr(oid, IV(64, c=0))
        if name in ("_ZNSt14overflow_errorC1EPKc", "_ZNSt14overflow_errorC2EPKc",
                    "_ZNSt13runtime_errorC1EPKc", "_ZNSt13runtime_errorC2EPKc",
                    "_ZNSt11range_errorC1EPKc", "_ZNSt12out_of_rangeC1EPKc", "_ZNSt16invalid_argumentC1EPKc",
                    "_ZNSt12domain_errorC1EPKc"):
            st.last_msg = self.cstring(st, args[1])
            st.msgs.append(st.last_msg)
            return None
        if name == "__cxa_throw":
            ti = args[1]
            tname = None
            if isinstance(ti, Ptr) and ti.obj is not None and not isinstance(ti.obj, tuple):
                tname = st.mem[ti.obj].name[2:]
            raise PathEnd("THROW", (tname, st.last_msg))
        if name == "__cxa_free_exception":
            return None
        if name in ("_ZSt9terminatev", "__clang_call_terminate"):
            raise PathEnd("TRAP", "terminate")
        if name in ("isdigit",):
            c = args[0]
            inr = b_and(d.icmp("sge", c, IV(c.bits, c=48)), d.icmp("sle", c, IV(c.bits, c=57)))
            return d.from_bool(inr, 32)
        if name == "strlen":
            s = self.cstring(st, args[0])
            if s is None:
                raise IRUnsupported("strlen of symbolic string")
            return IV(64, c=len(s))
        raise IRUnsupported("call to external function " + name)

    def intrinsic(self, st, work, name, args, ins):
        d = self.dom
        base = name.split(".")
        n1 = base[1]
        if n1 == "ubsantrap":
            k = args[0].c
            raise PathEnd("UB", UBSAN_KINDS.get(k, "ubsan_%d" % k))
        if n1 == "trap":
            raise PathEnd("TRAP", "__builtin_trap")
        if n1 in ("lifetime", "assume", "dbg", "experimental", "invariant", "donothing"):
            if n1 == "assume":
                c = args[0]
                if not is_conc_bool(c):
                    st.notes.append("llvm.assume ignored")
            return None
        if n1 == "expect":
            return args[0]
        if n1 in ("sadd", "ssub", "smul", "uadd", "usub", "umul") and base[2] == "with":
            r, ov = d.with_overflow(n1, args[0], args[1])
            return [r, ov]
        if n1 in ("sadd", "ssub", "uadd", "usub") and base[2] == "sat":
            a, b = args
            n = a.bits
            r, ov = d.with_overflow(n1, a, b)
            if n1[0] == "u":
                lim = IV(n, c=mask(n) if n1 == "uadd" else 0)
            else:
                # saturate toward the sign of the exact result: positive overflow iff a >= 0 (add) / a >= 0 (sub)
                neg = d.icmp("slt", a, IV(n, c=0))
                lim = d.select(neg, IV(n, c=1 << (n - 1)), IV(n, c=(1 << (n - 1)) - 1))
            return d.select(ov, lim, r)
        if n1 in ("ctlz", "cttz"):
            a = args[0]
            zero_poison = args[1]
            r = getattr(d, n1)(a)
            if zero_poison is True and a.c is None:
                # value at zero is poison: give it an unconstrained value
                fr = d.fresh(a.bits, "poison")
                r = d.select(d.is_zero(a), fr, r)
            elif zero_poison is True and a.c == 0:
                r = d.fresh(a.bits, "poison")
            return r
        if n1 == "ctpop":
            return d.ctpop(args[0])
        if n1 in ("smax", "smin", "umax", "umin"):
            a, b = args
            pred = {"smax": "sgt", "smin": "slt", "umax": "ugt", "umin": "ult"}[n1]
            return d.select(d.icmp(pred, a, b), a, b)
        if n1 == "abs":
            a = args[0]
            neg = d.binop("sub", IV(a.bits, c=0), a)
            return d.select(d.icmp("slt", a, IV(a.bits, c=0)), neg, a)
        if n1 in ("fshl", "fshr"):
            a, b, c = args
            n = a.bits
            if self.mode != "bv":
                raise IntUnsupported(n1)
            x = z3.Concat(d.E(a), d.E(b))
            sh = z3.ZeroExt(n, z3.URem(d.E(c), z3.BitVecVal(n, n)))
            if n1 == "fshl":
                r = z3.Extract(2 * n - 1, n, x << sh)
            else:
                r = z3.Extract(n - 1, 0, z3.LShR(x, sh))
            return d.mk(n, z3.simplify(r)) if a.c is not None and b.c is not None and c.c is not None else IV(n, e=r)
        if n1 == "bswap":
            a = args[0]
            bs = d.to_bytes(a)
            return d.from_bytes(list(reversed(bs)), a.bits)
        if n1 in ("memcpy", "memmove", "memset"):
            is_set = n1 == "memset"
            dst = Ptr(args[0].obj, self.conc(args[0].off))
            ln = self.conc(args[2])
            if is_set:
                src = None
                val = args[1]
            else:
                src = Ptr(args[1].obj, self.conc(args[1].off))
            if ln.c == 0:
                return None
            if dst.obj is None or (src is not None and src.obj is None):
                # a null pointer with a possibly-zero length is fine; with non-zero length it is UB
                if ln.c is not None:
                    raise PathEnd("UB", "null_" + n1)
            syms = [("len", ln)] + [("dst", dst.off)] + ([("src", src.off)] if src is not None else [])
            if all(iv.c is not None for _, iv in syms):
                self.mem_transfer(st, dst.obj, dst.off.sc, None if is_set else src.obj, None if is_set else src.off.sc,
                                  ln.c, val if is_set else None)
                return None
            # enumerate the feasible (length, offsets) combinations; one successor state per combination
            dsize = st.mem[dst.obj].size if dst.obj is not None else 0
            ssize = st.mem[src.obj].size if (src is not None and src.obj is not None) else dsize
            combos = [([], [])]
            for nm, iv in syms:
                if iv.c is not None:
                    combos = [(vals + [iv.sc if nm != "len" else iv.c], conds) for vals, conds in combos]
                    continue
                hi = min(dsize, ssize) if nm == "len" else (dsize if nm == "dst" else ssize)
                newc = []
                for vals, conds in combos:
                    for v in range(0, hi + 1):
                        c = zb(self.dom.icmp("eq", iv, IV(iv.bits, c=v)))
                        if self.feasible(st, z3.And(*(conds + [c]))) is not False:
                            newc.append((vals + [v], conds + [c]))
                    # anything outside [0, hi] is an out-of-bounds transfer
                    oob = z3.And(*(conds + [zb(self.dom.icmp("ugt", iv, IV(iv.bits, c=hi)))]))
                    if self.feasible(st, oob) is not False:
                        self.paths.append(Path(st.pc + [oob], "UB", "oob_" + n1, None, list(st.notes), list(st.msgs)))
                combos = newc
                if len(combos) > 400:
                    raise IRUnsupported(n1 + ": too many length/offset combinations")
            if not combos:
                raise PathEnd("INFEASIBLE")
            states = []
            for i, (vals, conds) in enumerate(combos):
                tgt = st if i == len(combos) - 1 else st.clone()
                tgt.pc.extend(conds)
                states.append((tgt, vals))
            for tgt, vals in states:
                lnv = vals[0]
                dv = vals[1]
                sv = vals[2] if src is not None else None
                try:
                    if lnv > 0:
                        if dst.obj is None or (src is not None and src.obj is None):
                            raise PathEnd("UB", "null_" + n1)
                        self.mem_transfer(tgt, dst.obj, dv, None if is_set else src.obj, sv, lnv, val if is_set else None)
                    if tgt is not st:
                        if ins.x.get("normal"):
                            self.goto(tgt, ins.x["normal"], defer=True)
                        work.append(tgt)
                except PathEnd as pe:
                    if tgt is st:
                        raise
                    if pe.kind != "INFEASIBLE":
                        self.paths.append(Path(tgt.pc, pe.kind, pe.payload, tgt.mem, tgt.notes, tgt.msgs))
            return None
        if n1 == "fabs":
            return z3.fpAbs(args[0])
        if n1 in ("floor", "ceil", "trunc", "rint", "nearbyint", "round", "roundeven"):
            rm = {"floor": z3.RTN(), "ceil": z3.RTP(), "trunc": RTZ, "rint": RNE, "nearbyint": RNE,
                  "round": z3.RNA(), "roundeven": RNE}[n1]
            return z3.fpRoundToIntegral(rm, args[0])
        if n1 == "is" and base[2] == "constant":
            return False
        if n1 == "objectsize":
            return IV(ins.ty.bits, c=mask(ins.ty.bits))
        if n1 in ("stacksave",):
            return Ptr(None, IV(64, c=0))
        if n1 in ("stackrestore", "prefetch"):
            return None
        raise IRUnsupported("intrinsic " + name)
